#!/bin/sh
# Builds the verification engines offline. Run once in /verif after a fresh restore.
set -e
cd "$(dirname "$0")"
export CARGO_NET_OFFLINE=true
(cd tools/numir && cargo +nightly build --offline)
if [ -d tools/nusyn ]; then (cd tools/nusyn && cargo build --offline); fi
echo "setup ok"
