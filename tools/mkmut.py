#!/usr/bin/env python3
"""mkmut.py <name> <props> <file> <old> <new> [<file> <old> <new> ...] [--benign] [--note text]
Creates /verif/mutants/<name>.patch (a realistic single-site change to the generator) from a
literal text replacement applied to a scratch copy of /repo. <props>: comma list expected to fire."""
import os, subprocess, sys, shutil, tempfile
args = sys.argv[1:]
benign = '--benign' in args
if benign: args.remove('--benign')
note = ''
if '--note' in args:
    i = args.index('--note'); note = args[i+1]; del args[i:i+2]
name, props = args[0], args[1]
triples = args[2:]
tmp = tempfile.mkdtemp(prefix='mkmut.', dir='/var/tmp')
try:
    subprocess.check_call(['git', '-C', '/repo', 'worktree', 'add', '--detach', '-q', tmp + '/wt', 'HEAD'])
    wt = tmp + '/wt'
    for i in range(0, len(triples), 3):
        f, old, new = triples[i:i+3]
        p = os.path.join(wt, f)
        s = open(p).read()
        if s.count(old) != 1:
            print(f'ERROR: {f}: old text occurs {s.count(old)} times'); sys.exit(1)
        open(p, 'w').write(s.replace(old, new))
    diff = subprocess.check_output(['git', '-C', wt, 'diff'], text=True)
    d = os.path.join(os.path.dirname(os.path.dirname(os.path.abspath(__file__))), 'mutants', 'benign' if benign else '')
    os.makedirs(d, exist_ok=True)
    with open(f'{d}/{name}.patch', 'w') as fh:
        fh.write(f'# props: {props}\n# note: {note}\n' + diff)
    print('wrote', f'{d}/{name}.patch', len(diff.splitlines()), 'lines')
finally:
    subprocess.call(['git', '-C', '/repo', 'worktree', 'remove', '--force', tmp + '/wt'])
    shutil.rmtree(tmp, ignore_errors=True)
