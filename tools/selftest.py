#!/usr/bin/env python3
"""selftest.py [names...]: applies each mutant patch to a scratch copy of /repo and runs the quick checks
of the properties it names against the copy (VERIF_REPO override). A mutant must be reported as a
VIOLATION by at least one of its properties; a benign patch must stay silent on all checks."""
import os, subprocess, sys, shutil, tempfile, glob, json, re, time
VERIF = os.path.dirname(os.path.dirname(os.path.abspath(__file__)))
def run_one(patch, benign):
    name = os.path.basename(patch)[:-6]
    head = open(patch).read().split('\n')
    props = [p for p in head[0].replace('# props:', '').strip().split(',') if p]
    tmp = tempfile.mkdtemp(prefix='selftest.', dir='/var/tmp')
    wt = tmp + '/wt'
    res = {'name': name, 'props': props, 'benign': benign}
    try:
        subprocess.check_call(['git', '-C', '/repo', 'worktree', 'add', '--detach', '-q', wt, 'HEAD'])
        p = subprocess.run(['git', '-C', wt, 'apply', patch], capture_output=True, text=True)
        if p.returncode != 0:
            res['status'] = 'PATCH-FAILED'; res['out'] = p.stderr; return res
        env = dict(os.environ, VERIF_REPO=wt, VERIF_NO_EVIDENCE='1', VERIF_CACHE=tmp + '/cache')   # facts of a patched tree are of no use to any other run: they go with the scratch directory
        fired = {}
        for prop in props:
            t0 = time.time()
            q = subprocess.run(['python3', f'{VERIF}/tools/nv.py', 'check', prop], capture_output=True, text=True, env=env, cwd=VERIF)
            v = [l for l in q.stdout.split('\n') if l.startswith('VIOLATION')]
            fired[prop] = {'rc': q.returncode, 'violations': len(v), 's': round(time.time() - t0, 1),
                           'first': '\n'.join(q.stdout.split('\n')[:6])[:900] if v or q.returncode not in (0, 1) else ''}
            if q.returncode != 0 and not v:
                # a check that exits non-zero without a VIOLATION line did not decide anything: keep what it said
                fired[prop]['rc'] = q.returncode if q.returncode != 1 else 3
                fired[prop]['first'] = (q.stdout[-600:] + '\n--- stderr ---\n' + q.stderr[-1500:])
        res['fired'] = fired
        if benign:
            res['status'] = 'OK' if all(f['rc'] == 0 for f in fired.values()) else 'FALSE-ALARM'
        else:
            broken = [p for p, f in fired.items() if f['rc'] not in (0, 1)]
            res['status'] = 'BROKEN' if broken else ('CAUGHT' if any(f['rc'] == 1 and f['violations'] for f in fired.values()) else 'MISSED')
        return res
    finally:
        subprocess.call(['git', '-C', '/repo', 'worktree', 'remove', '--force', wt])
        shutil.rmtree(tmp, ignore_errors=True)
def main():
    names = sys.argv[1:]
    jout = None
    if '--json' in names:
        i = names.index('--json'); jout = names[i + 1]; del names[i:i + 2]
    jobs = 1
    if '-j' in names:
        i = names.index('-j'); jobs = int(names[i + 1]); del names[i:i + 2]
    allres = []
    pats = sorted(glob.glob(f'{VERIF}/mutants/*.patch')) + sorted(glob.glob(f'{VERIF}/mutants/benign/*.patch'))
    if names:
        pats = [p for p in pats if os.path.basename(p)[:-6] in names]
    bad = 0
    from concurrent.futures import ThreadPoolExecutor
    tp = ThreadPoolExecutor(max_workers=jobs)
    for r in tp.map(lambda p: run_one(p, '/benign/' in p), pats):
        allres.append(r)
        if jout:
            json.dump(allres, open(jout, 'w'), indent=1)
        print(f"{r['status']:12} {r['name']:40} " + ' '.join(f"{k}:rc{v['rc']}/{v['violations']}v/{v['s']}s" for k, v in r.get('fired', {}).items()), flush=True)
        if r['status'] not in ('CAUGHT', 'OK'):
            bad += 1
            for k, v in r.get('fired', {}).items():
                if v['first']: print('   ', v['first'].replace('\n', '\n    '))
            if 'out' in r: print(r['out'])
    return 1 if bad else 0
sys.exit(main())
