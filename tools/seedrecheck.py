#!/usr/bin/env python3
"""seedrecheck.py <seed dir name>... : re-runs every quick check against /repo HEAD + the saved patch of a filed seed and
updates caught_by / checks in its meta.json (the demonstration was confirmed when the seed was filed)."""
import json, os, shutil, subprocess, sys, tempfile, time
for name in sys.argv[1:]:
    d = f'/verif/seeded/{name}'
    meta = json.load(open(d + '/meta.json'))
    tmp = tempfile.mkdtemp(prefix='seedre.', dir='/var/tmp'); wt = tmp + '/wt'
    try:
        subprocess.check_call(['git', '-C', '/repo', 'worktree', 'add', '--detach', '-q', wt, 'HEAD'])
        subprocess.check_call(['git', '-C', wt, 'apply', d + ('/patch.head.diff' if os.path.exists(d + '/patch.head.diff') else '/patch.diff')])
        env = dict(os.environ, VERIF_REPO=wt, VERIF_NO_EVIDENCE='1', VERIF_CACHE=tmp + '/cache')
        fired = {}
        for p in [f'C{i:02d}' for i in range(1, 17)]:
            TR = os.environ.get('VERIF_TOOLS_ROOT', '/verif')
            q = subprocess.run(['python3', TR + '/tools/nv.py', 'check', p], capture_output=True, text=True, env=env, cwd=TR)
            v = [l for l in q.stdout.split('\n') if l.startswith('VIOLATION')]
            first = ''
            if v:
                ls = q.stdout.split('\n'); i = ls.index(v[0]); first = '\n'.join(ls[i:i + 4])[:700]
            fired[p] = {'rc': q.returncode, 'violation_lines': len(v), 'first': first, 'summary': q.stdout.strip().split('\n')[-1][:200]}
        meta['checks'] = fired
        prev = meta.get('caught_by', [])
        meta['caught_by'] = [p for p, f in fired.items() if f['rc'] == 1 and f['violation_lines']]
        meta.setdefault('caught_by_when_filed', prev)
        json.dump(meta, open(d + '/meta.json', 'w'), indent=1)
        print(name, 'caught_by', meta['caught_by'])
    finally:
        subprocess.call(['git', '-C', '/repo', 'worktree', 'remove', '--force', wt]); shutil.rmtree(tmp, ignore_errors=True)
