#!/bin/sh
# runall.sh [tier]: every registered check once; prints one summary line per property
tier=${1:-quick}
cd "$(dirname "$0")/.."
rc=0
for p in C01 C02 C03 C04 C05 C06 C07 C08 C09 C10 C11 C12 C13 C14 C15 C16; do
  start=$(date +%s)
  out=$(python3 tools/nv.py check $p --tier $tier 2>&1); r=$?
  end=$(date +%s)
  echo "$p rc=$r $((end-start))s :: $(echo "$out" | tail -1)"
  if [ $r -ne 0 ]; then rc=1; echo "$out" | grep -A3 VIOLATION | head -20; fi
done
exit $rc
