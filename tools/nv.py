#!/usr/bin/env python3
import os
import sys
sys.path.insert(0, os.path.dirname(os.path.abspath(__file__)))
from nv import cli
sys.exit(cli.main())
