// numir: rustc_private driver that dumps type-checked facts and the MIR of every
// local body of crates containing nutype-generated modules, as JSON.
//
// It is a *dumper* only: every decision is taken by tools/nurules (Python).
// Usage: RUSTC_WORKSPACE_WRAPPER=numir NUMIR_OUT=<dir> cargo +nightly check
// (cargo passes the real rustc path as argv[1]; we drop it).
#![feature(rustc_private)]
#![allow(clippy::all)]
extern crate rustc_abi;
extern crate rustc_driver;
extern crate rustc_hir;
extern crate rustc_interface;
extern crate rustc_middle;
extern crate rustc_span;

use rustc_driver::Compilation;
use rustc_hir::def::DefKind;
use rustc_hir::def_id::{DefId, LocalDefId};
use rustc_middle::mir::{
    self, AggregateKind, BinOp, BorrowKind, Const, ConstValue, Operand, Place, ProjectionElem,
    Rvalue, StatementKind, TerminatorKind, UnOp,
};
use rustc_middle::ty::print::with_no_trimmed_paths;
use rustc_middle::ty::{self, Ty, TyCtxt};
use rustc_span::Span;
use std::fmt::Write as _;

// ---------------------------------------------------------------- JSON writer

fn esc(s: &str) -> String {
    let mut o = String::with_capacity(s.len() + 2);
    o.push('"');
    for c in s.chars() {
        match c {
            '"' => o.push_str("\\\""),
            '\\' => o.push_str("\\\\"),
            '\n' => o.push_str("\\n"),
            '\r' => o.push_str("\\r"),
            '\t' => o.push_str("\\t"),
            c if (c as u32) < 0x20 => {
                let _ = write!(o, "\\u{:04x}", c as u32);
            }
            c => o.push(c),
        }
    }
    o.push('"');
    o
}

fn arr(items: Vec<String>) -> String {
    format!("[{}]", items.join(","))
}

fn obj(items: Vec<(&str, String)>) -> String {
    let mut o = String::from("{");
    let mut first = true;
    for (k, v) in items {
        if !first {
            o.push(',');
        }
        first = false;
        o.push_str(&esc(k));
        o.push(':');
        o.push_str(&v);
    }
    o.push('}');
    o
}

fn b(v: bool) -> String {
    (if v { "true" } else { "false" }).to_string()
}

// ---------------------------------------------------------------- helpers

struct Cx<'tcx> {
    tcx: TyCtxt<'tcx>,
    // interned type table: every type reference in the dump is an index into "types"
    ty_ix: std::cell::RefCell<std::collections::HashMap<Ty<'tcx>, usize>>,
    ty_tab: std::cell::RefCell<Vec<String>>,
}

impl<'tcx> Cx<'tcx> {
    fn path(&self, did: DefId) -> String {
        with_no_trimmed_paths!(self.tcx.def_path_str(did))
    }

    fn lid(&self, did: DefId) -> String {
        match did.as_local() {
            Some(l) => format!("{}", l.local_def_index.as_u32()),
            None => "null".to_string(),
        }
    }

    fn span(&self, sp: Span) -> String {
        let sm = self.tcx.sess.source_map();
        let lo = sm.lookup_char_pos(sp.lo());
        let hi = sm.lookup_char_pos(sp.hi());
        // "!": the span comes from a macro expansion context (generated tokens);
        // without it the tokens are the user's own (root syntax context).
        let file = match &lo.file.name {
            rustc_span::FileName::Real(r) => match r.local_path() {
                Some(p) => p.to_string_lossy().to_string(),
                None => "<remote>".to_string(),
            },
            _ => "<virtual>".to_string(),
        };
        esc(&format!(
            "{}{}:{}:{}-{}:{}",
            if sp.from_expansion() { "!" } else { "" },
            file,
            lo.line,
            lo.col.0 + 1,
            hi.line,
            hi.col.0 + 1
        ))
    }

    fn vis(&self, did: DefId) -> String {
        match self.tcx.visibility(did) {
            ty::Visibility::Public => esc("pub"),
            ty::Visibility::Restricted(m) => {
                if m.is_crate_root() {
                    esc("crate")
                } else {
                    esc(&format!("in:{}", self.path(m)))
                }
            }
        }
    }

    fn ty_str(&self, t: Ty<'tcx>) -> String {
        with_no_trimmed_paths!(format!("{}", t))
    }

    fn ty(&self, t: Ty<'tcx>) -> String {
        self.ty_d(t, 0)
    }

    fn ty_d(&self, t: Ty<'tcx>, depth: usize) -> String {
        if let Some(i) = self.ty_ix.borrow().get(&t) {
            return format!("{}", i);
        }
        // reserve the slot first so that recursive types terminate
        let i = {
            let mut tab = self.ty_tab.borrow_mut();
            tab.push(String::new());
            tab.len() - 1
        };
        self.ty_ix.borrow_mut().insert(t, i);
        let j = self.ty_json(t, depth);
        self.ty_tab.borrow_mut()[i] = j;
        format!("{}", i)
    }

    fn ty_json(&self, t: Ty<'tcx>, depth: usize) -> String {
        if depth > 12 {
            return obj(vec![("k", esc("deep")), ("s", esc(&self.ty_str(t)))]);
        }
        let s = esc(&self.ty_str(t));
        match t.kind() {
            ty::Bool | ty::Char | ty::Int(_) | ty::Uint(_) | ty::Float(_) | ty::Str | ty::Never => {
                obj(vec![("k", esc("prim")), ("s", s)])
            }
            ty::Adt(def, args) => obj(vec![
                ("k", esc("adt")),
                ("s", s),
                ("path", esc(&self.path(def.did()))),
                ("lid", self.lid(def.did())),
                ("args", self.gargs(args, depth + 1)),
            ]),
            ty::Ref(_, inner, m) => obj(vec![
                ("k", esc("ref")),
                ("s", s),
                ("mut", b(m.is_mut())),
                ("t", self.ty_d(*inner, depth + 1)),
            ]),
            ty::RawPtr(inner, m) => obj(vec![
                ("k", esc("ptr")),
                ("s", s),
                ("mut", b(m.is_mut())),
                ("t", self.ty_d(*inner, depth + 1)),
            ]),
            ty::Tuple(ts) => obj(vec![
                ("k", esc("tuple")),
                ("s", s),
                ("ts", arr(ts.iter().map(|x| self.ty_d(x, depth + 1)).collect())),
            ]),
            ty::Slice(inner) => {
                obj(vec![("k", esc("slice")), ("s", s), ("t", self.ty_d(*inner, depth + 1))])
            }
            ty::Array(inner, _) => {
                obj(vec![("k", esc("array")), ("s", s), ("t", self.ty_d(*inner, depth + 1))])
            }
            ty::Closure(did, _) => obj(vec![
                ("k", esc("closure")),
                ("s", s),
                ("path", esc(&self.path(*did))),
                ("lid", self.lid(*did)),
                ("span", self.span(self.tcx.def_span(*did))),
            ]),
            ty::FnDef(did, args) => obj(vec![
                ("k", esc("fndef")),
                ("s", s),
                ("path", esc(&self.path(*did))),
                ("lid", self.lid(*did)),
                ("args", self.gargs(args, depth + 1)),
            ]),
            ty::FnPtr(..) => obj(vec![("k", esc("fnptr")), ("s", s)]),
            ty::Param(p) => obj(vec![("k", esc("param")), ("s", s), ("name", esc(p.name.as_str()))]),
            ty::Alias(..) => obj(vec![("k", esc("alias")), ("s", s)]),
            ty::Dynamic(..) => obj(vec![("k", esc("dyn")), ("s", s)]),
            _ => obj(vec![("k", esc("other")), ("s", s)]),
        }
    }

    fn gargs(&self, args: ty::GenericArgsRef<'tcx>, depth: usize) -> String {
        let mut v = vec![];
        for a in args.iter() {
            if let Some(t) = a.as_type() {
                v.push(self.ty_d(t, depth));
            } else if let Some(c) = a.as_const() {
                v.push(obj(vec![("k", esc("const")), ("s", esc(&format!("{}", c)))]));
            }
            // regions are skipped
        }
        arr(v)
    }
}

// ---------------------------------------------------------------- body dumper

struct BodyCx<'a, 'tcx> {
    cx: &'a Cx<'tcx>,
    owner: DefId,
    body: &'a mir::Body<'tcx>,
    env: ty::TypingEnv<'tcx>,
}

impl<'a, 'tcx> BodyCx<'a, 'tcx> {
    fn place(&self, p: &Place<'tcx>) -> String {
        let mut projs = vec![];
        for (base, elem) in p.iter_projections() {
            let _ = base;
            match elem {
                ProjectionElem::Deref => projs.push(esc("*")),
                ProjectionElem::Field(f, t) => projs.push(obj(vec![
                    ("f", format!("{}", f.as_u32())),
                    ("t", self.cx.ty(t)),
                ])),
                ProjectionElem::Downcast(name, v) => projs.push(obj(vec![
                    ("d", format!("{}", v.as_u32())),
                    ("n", esc(&name.map(|s| s.to_string()).unwrap_or_default())),
                ])),
                other => projs.push(obj(vec![("o", esc(&format!("{:?}", other)))])),
            }
        }
        obj(vec![("l", format!("{}", p.local.as_u32())), ("p", arr(projs))])
    }

    fn callee(&self, did: DefId, args: ty::GenericArgsRef<'tcx>) -> Vec<(&'static str, String)> {
        let tcx = self.cx.tcx;
        let mut v: Vec<(&'static str, String)> = vec![
            ("path", esc(&self.cx.path(did))),
            ("full", esc(&with_no_trimmed_paths!(tcx.def_path_str_with_args(did, args)))),
            ("lid", self.cx.lid(did)),
            ("name", esc(tcx.item_name(did).as_str())),
            ("gargs", self.cx.gargs(args, 1)),
            ("safe", b(!matches!(tcx.def_kind(did), DefKind::Fn | DefKind::AssocFn)
                || tcx.fn_sig(did).skip_binder().safety().is_safe())),
            ("span", if did.is_local() { self.cx.span(tcx.def_span(did)) } else { "null".to_string() }),
        ];
        if let Some(tr) = tcx.trait_of_assoc(did) {
            v.push(("trait", esc(&self.cx.path(tr))));
        }
        v.push(("dk", esc(&format!("{:?}", tcx.def_kind(did)).split('(').next().unwrap_or("").to_string())));
        if let DefKind::Ctor(of, _) = tcx.def_kind(did) {
            // constructor used as a function value: Variant(..) / Struct(..)
            let owner = tcx.parent(did);
            let (adt_did, vname) = match of {
                rustc_hir::def::CtorOf::Struct => (owner, tcx.item_name(owner).to_string()),
                rustc_hir::def::CtorOf::Variant => (tcx.parent(owner), tcx.item_name(owner).to_string()),
            };
            let def = tcx.adt_def(adt_did);
            let vidx = def.variants().iter_enumerated().find(|(_, vd)| vd.ctor_def_id() == Some(did)).map(|(i, _)| i.as_u32()).unwrap_or(0);
            v.push(("ctor", obj(vec![
                ("adt", esc(&self.cx.path(adt_did))),
                ("lid", self.cx.lid(adt_did)),
                ("vidx", format!("{}", vidx)),
                ("vname", esc(&vname)),
            ])));
        }
        if let Some(imp) = tcx.impl_of_assoc(did) {
            v.push((
                "impl_self",
                self.cx.ty(tcx.type_of(imp).instantiate_identity().skip_norm_wip()),
            ));
        }
        match ty::Instance::try_resolve(tcx, self.env, did, args) {
            Ok(Some(inst)) => {
                let rd = inst.def_id();
                let mut r: Vec<(&str, String)> = vec![
                    ("path", esc(&self.cx.path(rd))),
                    ("lid", self.cx.lid(rd)),
                    ("span", if rd.is_local() { self.cx.span(tcx.def_span(rd)) } else { "null".to_string() }),
                ];
                let kind = match inst.def {
                    ty::InstanceKind::Item(_) => "item",
                    ty::InstanceKind::Intrinsic(_) => "intrinsic",
                    ty::InstanceKind::Virtual(..) => "virtual",
                    ty::InstanceKind::ClosureOnceShim { .. } => "closure_once_shim",
                    ty::InstanceKind::FnPtrShim(..) => "fnptr_shim",
                    ty::InstanceKind::CloneShim(..) => "clone_shim",
                    ty::InstanceKind::DropGlue(..) => "drop_glue",
                    _ => "other",
                };
                r.push(("kind", esc(kind)));
                if matches!(tcx.def_kind(rd), DefKind::AssocFn) {
                    if let Some(imp) = tcx.impl_of_assoc(rd) {
                        r.push((
                            "impl_self",
                            self.cx.ty(tcx.type_of(imp).instantiate_identity().skip_norm_wip()),
                        ));
                    }
                }
                v.push(("res", obj(r)));
            }
            _ => {}
        }
        v
    }

    fn constant(&self, c: &mir::ConstOperand<'tcx>) -> String {
        let tcx = self.cx.tcx;
        let t = c.const_.ty();
        let mut v: Vec<(&str, String)> = vec![("ty", self.cx.ty(t))];
        if !c.span.is_dummy() && !c.span.from_expansion() {
            v.push(("usp", "1".to_string()));   // the constant was written by the user (root syntax context)
        }
        if let ty::FnDef(did, args) = t.kind() {
            v.push(("fn", obj(self.callee(*did, args))));
            return obj(v);
        }
        match c.const_ {
            Const::Unevaluated(u, _) => {
                if let Some(p) = u.promoted {
                    v.push(("promoted", format!("{}", p.as_u32())));
                    return obj(v);
                }
                v.push(("unev", esc(&self.cx.path(u.def))));
                v.push(("unev_lid", self.cx.lid(u.def)));
            }
            _ => {}
        }
        let is_scalar_ty = matches!(
            t.kind(),
            ty::Bool | ty::Char | ty::Int(_) | ty::Uint(_) | ty::Float(_)
        );
        if is_scalar_ty {
            if let Some(si) = c.const_.try_eval_scalar_int(tcx, self.env) {
                v.push(("bits", esc(&format!("{:#x}", si.to_bits_unchecked()))));
                v.push(("size", format!("{}", si.size().bytes())));
            }
            return obj(v);
        }
        // &str constants (type names handed to serde, panic messages ...)
        if let ty::Ref(_, inner, _) = t.kind() {
            if inner.is_str() {
                if let Ok(val) = c.const_.eval(tcx, self.env, c.span) {
                    if !matches!(val, ConstValue::Scalar(_) | ConstValue::ZeroSized) {
                        if let Some(bytes) = val.try_get_slice_bytes_for_diagnostics(tcx) {
                            v.push(("str", esc(&String::from_utf8_lossy(bytes))));
                        }
                    }
                }
                return obj(v);
            }
        }
        // references to statics (e.g. the generated regex static, user statics)
        if let ty::Ref(..) = t.kind() {
            if let Ok(ConstValue::Scalar(rustc_middle::mir::interpret::Scalar::Ptr(ptr, _))) =
                c.const_.eval(tcx, self.env, c.span)
            {
                let (prov, _off) = ptr.into_raw_parts();
                if let Some(rustc_middle::mir::interpret::GlobalAlloc::Static(sdid)) =
                    tcx.try_get_global_alloc(prov.alloc_id())
                {
                    v.push(("static", esc(&self.cx.path(sdid))));
                    v.push(("static_lid", self.cx.lid(sdid)));
                    return obj(v);
                }
            }
        }
        // &[u8; N] constants (format_args! templates)
        if let ty::Ref(_, inner, _) = t.kind() {
            if let ty::Array(elem, _) = inner.kind() {
                if *elem == tcx.types.u8 {
                    if let Ok(ConstValue::Scalar(rustc_middle::mir::interpret::Scalar::Ptr(ptr, _))) =
                        c.const_.eval(tcx, self.env, c.span)
                    {
                        let (prov, off) = ptr.into_raw_parts();
                        if let Some(rustc_middle::mir::interpret::GlobalAlloc::Memory(a)) =
                            tcx.try_get_global_alloc(prov.alloc_id())
                        {
                            let a = a.inner();
                            let start = off.bytes() as usize;
                            let bytes = a.inspect_with_uninit_and_ptr_outside_interpreter(start..a.len());
                            let hex: String = bytes.iter().map(|x| format!("{:02x}", x)).collect();
                            v.push(("bytes", esc(&hex)));
                            return obj(v);
                        }
                    }
                }
            }
        }
        if let Const::Val(ConstValue::ZeroSized, _) = c.const_ {
            v.push(("zst", b(true)));
            return obj(v);
        }
        v.push(("raw", esc(&with_no_trimmed_paths!(format!("{:?}", c.const_)))));
        obj(v)
    }

    fn operand(&self, o: &Operand<'tcx>) -> String {
        match o {
            Operand::Copy(p) => obj(vec![("c", self.place(p))]),
            Operand::Move(p) => obj(vec![("m", self.place(p))]),
            Operand::Constant(c) => obj(vec![("k", self.constant(c))]),
            #[allow(unreachable_patterns)]
            other => obj(vec![("x", esc(&format!("{:?}", other)))]),
        }
    }

    fn binop(op: BinOp) -> &'static str {
        match op {
            BinOp::Add => "Add",
            BinOp::AddUnchecked => "AddUnchecked",
            BinOp::AddWithOverflow => "AddWithOverflow",
            BinOp::Sub => "Sub",
            BinOp::SubUnchecked => "SubUnchecked",
            BinOp::SubWithOverflow => "SubWithOverflow",
            BinOp::Mul => "Mul",
            BinOp::MulUnchecked => "MulUnchecked",
            BinOp::MulWithOverflow => "MulWithOverflow",
            BinOp::Div => "Div",
            BinOp::Rem => "Rem",
            BinOp::BitXor => "BitXor",
            BinOp::BitAnd => "BitAnd",
            BinOp::BitOr => "BitOr",
            BinOp::Shl => "Shl",
            BinOp::ShlUnchecked => "ShlUnchecked",
            BinOp::Shr => "Shr",
            BinOp::ShrUnchecked => "ShrUnchecked",
            BinOp::Eq => "Eq",
            BinOp::Lt => "Lt",
            BinOp::Le => "Le",
            BinOp::Ne => "Ne",
            BinOp::Ge => "Ge",
            BinOp::Gt => "Gt",
            BinOp::Cmp => "Cmp",
            BinOp::Offset => "Offset",
        }
    }

    fn rvalue(&self, rv: &Rvalue<'tcx>) -> String {
        let tcx = self.cx.tcx;
        match rv {
            Rvalue::Use(o, ..) => obj(vec![("r", esc("use")), ("o", self.operand(o))]),
            Rvalue::Ref(_, bk, p) => obj(vec![
                ("r", esc("ref")),
                ("mut", b(matches!(bk, BorrowKind::Mut { .. }))),
                ("p", self.place(p)),
            ]),
            Rvalue::RawPtr(k, p) => obj(vec![
                ("r", esc("rawptr")),
                ("kind", esc(&format!("{:?}", k))),
                ("p", self.place(p)),
            ]),
            Rvalue::Cast(k, o, t) => obj(vec![
                ("r", esc("cast")),
                ("kind", esc(&format!("{:?}", k))),
                ("o", self.operand(o)),
                ("ty", self.cx.ty(*t)),
                ("from", self.cx.ty(o.ty(&self.body.local_decls, self.cx.tcx))),
            ]),
            Rvalue::BinaryOp(op, ops) => {
                let (x, y) = &**ops;
                obj(vec![
                    ("r", esc("bin")),
                    ("op", esc(Self::binop(*op))),
                    ("a", self.operand(x)),
                    ("b", self.operand(y)),
                    ("aty", self.cx.ty(x.ty(&self.body.local_decls, tcx))),
                ])
            }
            Rvalue::UnaryOp(op, o) => obj(vec![
                ("r", esc("un")),
                (
                    "op",
                    esc(match op {
                        UnOp::Not => "Not",
                        UnOp::Neg => "Neg",
                        UnOp::PtrMetadata => "PtrMetadata",
                    }),
                ),
                ("a", self.operand(o)),
                ("aty", self.cx.ty(o.ty(&self.body.local_decls, tcx))),
            ]),
            Rvalue::Discriminant(p) => obj(vec![("r", esc("discr")), ("p", self.place(p))]),
            Rvalue::CopyForDeref(p) => obj(vec![
                ("r", esc("use")),
                ("o", obj(vec![("c", self.place(p))])),
            ]),
            Rvalue::Aggregate(k, ops) => {
                let opsj = arr(ops.iter().map(|o| self.operand(o)).collect());
                match &**k {
                    AggregateKind::Adt(did, variant, args, _, active) => {
                        let def = tcx.adt_def(*did);
                        let vname = def.variant(*variant).name.to_string();
                        obj(vec![
                            ("r", esc("agg")),
                            ("kind", esc("adt")),
                            ("adt", esc(&self.cx.path(*did))),
                            ("lid", self.cx.lid(*did)),
                            ("variant", format!("{}", variant.as_u32())),
                            ("vname", esc(&vname)),
                            ("gargs", self.cx.gargs(args, 1)),
                            ("union", b(active.is_some())),
                            ("ops", opsj),
                        ])
                    }
                    AggregateKind::Tuple => {
                        obj(vec![("r", esc("agg")), ("kind", esc("tuple")), ("ops", opsj)])
                    }
                    AggregateKind::Array(_) => {
                        obj(vec![("r", esc("agg")), ("kind", esc("array")), ("ops", opsj)])
                    }
                    AggregateKind::Closure(did, _) => obj(vec![
                        ("r", esc("agg")),
                        ("kind", esc("closure")),
                        ("path", esc(&self.cx.path(*did))),
                        ("lid", self.cx.lid(*did)),
                        ("span", self.cx.span(tcx.def_span(*did))),
                        ("ops", opsj),
                    ]),
                    other => obj(vec![
                        ("r", esc("agg")),
                        ("kind", esc("other")),
                        ("dbg", esc(&format!("{:?}", other))),
                        ("ops", opsj),
                    ]),
                }
            }
            other => obj(vec![
                ("r", esc("other")),
                ("dbg", esc(&with_no_trimmed_paths!(format!("{:?}", other)))),
            ]),
        }
    }

    fn blocks(&self) -> String {
        let tcx = self.cx.tcx;
        let body = self.body;
        let mut out = vec![];
        for (_bb, data) in body.basic_blocks.iter_enumerated() {
            let mut stmts = vec![];
            for st in &data.statements {
                match &st.kind {
                    StatementKind::Assign(bx) => {
                        let (place, rv) = &**bx;
                        stmts.push(obj(vec![
                            ("s", esc("assign")),
                            ("p", self.place(place)),
                            ("rv", self.rvalue(rv)),
                            ("sp", self.cx.span(st.source_info.span)),
                        ]));
                    }
                    StatementKind::StorageLive(_)
                    | StatementKind::StorageDead(_)
                    | StatementKind::Nop
                    | StatementKind::FakeRead(..)
                    | StatementKind::PlaceMention(..)
                    | StatementKind::AscribeUserType(..)
                    | StatementKind::Coverage(..)
                    | StatementKind::ConstEvalCounter => {}
                    other => {
                        stmts.push(obj(vec![
                            ("s", esc("other")),
                            ("dbg", esc(&with_no_trimmed_paths!(format!("{:?}", other)))),
                            ("sp", self.cx.span(st.source_info.span)),
                        ]));
                    }
                }
            }
            let term = data.terminator();
            let sp = self.cx.span(term.source_info.span);
            let unwind_s = |u: &mir::UnwindAction| -> String {
                match u {
                    mir::UnwindAction::Cleanup(bb) => format!("{}", bb.as_u32()),
                    _ => "null".to_string(),
                }
            };
            let tj = match &term.kind {
                TerminatorKind::Goto { target } => {
                    obj(vec![("t", esc("goto")), ("bb", format!("{}", target.as_u32()))])
                }
                TerminatorKind::SwitchInt { discr, targets } => {
                    let vals: Vec<String> = targets
                        .iter()
                        .map(|(v, bb)| format!("[{},{}]", esc(&format!("{}", v)), bb.as_u32()))
                        .collect();
                    obj(vec![
                        ("t", esc("switch")),
                        ("o", self.operand(discr)),
                        ("oty", self.cx.ty(discr.ty(&body.local_decls, tcx))),
                        ("vals", arr(vals)),
                        ("otherwise", format!("{}", targets.otherwise().as_u32())),
                        ("sp", sp),
                    ])
                }
                TerminatorKind::Return => obj(vec![("t", esc("ret"))]),
                TerminatorKind::Unreachable => obj(vec![("t", esc("unreachable"))]),
                TerminatorKind::UnwindResume => obj(vec![("t", esc("resume"))]),
                TerminatorKind::UnwindTerminate(_) => obj(vec![("t", esc("terminate"))]),
                TerminatorKind::Drop { place, target, unwind, .. } => obj(vec![
                    ("t", esc("drop")),
                    ("p", self.place(place)),
                    ("bb", format!("{}", target.as_u32())),
                    ("unwind", unwind_s(unwind)),
                ]),
                TerminatorKind::Call { func, args, destination, target, unwind, fn_span, .. } => {
                    let fj = match func {
                        Operand::Constant(c) => self.constant(c),
                        o => obj(vec![
                            ("indirect", self.operand(o)),
                            ("ty", self.cx.ty(o.ty(&body.local_decls, tcx))),
                        ]),
                    };
                    obj(vec![
                        ("t", esc("call")),
                        ("f", fj),
                        ("args", arr(args.iter().map(|a| self.operand(&a.node)).collect())),
                        ("dest", self.place(destination)),
                        (
                            "bb",
                            match target {
                                Some(t) => format!("{}", t.as_u32()),
                                None => "null".to_string(),
                            },
                        ),
                        ("unwind", unwind_s(unwind)),
                        ("sp", sp),
                        ("fsp", self.cx.span(*fn_span)),
                    ])
                }
                TerminatorKind::Assert { cond, expected, msg, target, unwind } => {
                    let kind = with_no_trimmed_paths!(format!("{:?}", msg));
                    obj(vec![
                        ("t", esc("assert")),
                        ("cond", self.operand(cond)),
                        ("expected", b(*expected)),
                        ("msg", esc(&kind)),
                        ("bb", format!("{}", target.as_u32())),
                        ("unwind", unwind_s(unwind)),
                        ("sp", sp),
                    ])
                }
                TerminatorKind::FalseEdge { real_target, .. } => {
                    obj(vec![("t", esc("goto")), ("bb", format!("{}", real_target.as_u32()))])
                }
                TerminatorKind::FalseUnwind { real_target, .. } => {
                    obj(vec![("t", esc("goto")), ("bb", format!("{}", real_target.as_u32()))])
                }
                other => obj(vec![
                    ("t", esc("other")),
                    ("dbg", esc(&with_no_trimmed_paths!(format!("{:?}", other)))),
                    ("sp", sp),
                ]),
            };
            out.push(obj(vec![
                ("cleanup", b(data.is_cleanup)),
                ("stmts", arr(stmts)),
                ("term", tj),
            ]));
        }
        arr(out)
    }

    fn dump(&self) -> Vec<(&'static str, String)> {
        let body = self.body;
        let mut locals = vec![];
        for (_l, d) in body.local_decls.iter_enumerated() {
            locals.push(self.cx.ty(d.ty));
        }
        let mut dbg = vec![];
        for vi in &body.var_debug_info {
            if let mir::VarDebugInfoContents::Place(p) = &vi.value {
                dbg.push(obj(vec![
                    ("name", esc(vi.name.as_str())),
                    ("p", self.place(p)),
                    ("sp", self.cx.span(vi.source_info.span)),
                ]));
            }
        }
        let _ = self.owner;
        vec![
            ("argc", format!("{}", body.arg_count)),
            ("locals", arr(locals)),
            ("debug", arr(dbg)),
            ("blocks", self.blocks()),
        ]
    }
}

// ---------------------------------------------------------------- crate walk

struct Cb;

fn has_nutype_module(tcx: TyCtxt<'_>) -> bool {
    for id in tcx.hir_crate_items(()).definitions() {
        if tcx.def_kind(id) == DefKind::Mod {
            let n = tcx.item_name(id.to_def_id());
            if n.as_str().starts_with("__nutype_") {
                return true;
            }
        }
    }
    false
}

fn nearest_mod(tcx: TyCtxt<'_>, did: LocalDefId) -> DefId {
    tcx.parent_module_from_def_id(did).to_def_id()
}

impl rustc_driver::Callbacks for Cb {
    fn after_analysis<'tcx>(
        &mut self,
        _c: &rustc_interface::interface::Compiler,
        tcx: TyCtxt<'tcx>,
    ) -> Compilation {
        let dir = match std::env::var("NUMIR_OUT") {
            Ok(d) => d,
            Err(_) => return Compilation::Continue,
        };
        let force = std::env::var("NUMIR_ALL").is_ok();
        if !force && !has_nutype_module(tcx) {
            return Compilation::Continue;
        }
        let cx = Cx { tcx, ty_ix: Default::default(), ty_tab: Default::default() };
        let cn = tcx.crate_name(rustc_span::def_id::LOCAL_CRATE);

        let mut mods = vec![];
        let mut adts = vec![];
        let mut impls = vec![];
        let mut fns = vec![];
        let mut uses = vec![];
        let mut consts = vec![];
        let mut items = vec![];

        for id in tcx.hir_crate_items(()).definitions() {
            let did = id.to_def_id();
            let kind = tcx.def_kind(did);
            // every named item that sits directly in a module: what a path written in that module can resolve to
            if matches!(
                kind,
                DefKind::Mod | DefKind::Struct | DefKind::Enum | DefKind::Union | DefKind::Trait | DefKind::TraitAlias
                    | DefKind::TyAlias | DefKind::Const { .. } | DefKind::Static { .. } | DefKind::Fn | DefKind::Macro(..)
            ) && did != rustc_span::def_id::CRATE_DEF_ID.to_def_id()
            {
                // ... or in a function body (scope = "fn"): what a path written in that body resolves to first
                let par = tcx.parent(did);
                let pk = tcx.def_kind(par);
                let scope = match pk {
                    DefKind::Mod => "mod",
                    DefKind::Fn | DefKind::AssocFn | DefKind::Closure | DefKind::Const { .. } | DefKind::AssocConst { .. } => "fn",
                    _ => "",
                };
                if !scope.is_empty() {
                    if let Some(name) = tcx.opt_item_name(did) {
                        items.push(obj(vec![
                            ("name", esc(name.as_str())),
                            ("kind", esc(&format!("{:?}", kind).split(|c| c == ' ' || c == '(' || c == '{').next().unwrap_or("").to_string())),
                            ("scope", esc(scope)),
                            ("module", esc(&cx.path(if scope == "mod" { par } else { nearest_mod(tcx, id) }))),
                            ("owner", esc(&cx.path(par))),
                            ("span", cx.span(tcx.def_span(did))),
                            // a const / static whose initialiser was written by the user (root syntax context)
                            ("init_user", b(matches!(kind, DefKind::Const { .. } | DefKind::Static { .. })
                                && tcx.hir_maybe_body_owned_by(id).map_or(false, |bd| !bd.value.span.from_expansion()))),
                        ]));
                    }
                }
            }
            match kind {
                DefKind::Mod => {
                    mods.push(obj(vec![
                        ("lid", cx.lid(did)),
                        ("path", esc(&cx.path(did))),
                        ("name", esc(tcx.item_name(did).as_str())),
                        ("vis", cx.vis(did)),
                        ("span", cx.span(tcx.def_span(did))),
                    ]));
                }
                DefKind::Struct | DefKind::Enum | DefKind::Union => {
                    let def = tcx.adt_def(did);
                    let mut variants = vec![];
                    for v in def.variants() {
                        let mut fields = vec![];
                        for f in &v.fields {
                            fields.push(obj(vec![
                                ("name", esc(f.name.as_str())),
                                ("vis", cx.vis(f.did)),
                                (
                                    "ty",
                                    cx.ty(tcx.type_of(f.did).instantiate_identity().skip_norm_wip()),
                                ),
                            ]));
                        }
                        variants.push(obj(vec![
                            ("name", esc(v.name.as_str())),
                            ("ctor", esc(&format!("{:?}", v.ctor_kind()))),
                            ("fields", arr(fields)),
                        ]));
                    }
                    let gens = tcx.generics_of(did);
                    let gnames: Vec<String> = gens
                        .own_params
                        .iter()
                        .map(|p| {
                            obj(vec![
                                ("name", esc(p.name.as_str())),
                                ("kind", esc(match p.kind {
                                    ty::GenericParamDefKind::Lifetime => "lifetime",
                                    ty::GenericParamDefKind::Type { .. } => "type",
                                    ty::GenericParamDefKind::Const { .. } => "const",
                                })),
                            ])
                        })
                        .collect();
                    adts.push(obj(vec![
                        ("lid", cx.lid(did)),
                        ("path", esc(&cx.path(did))),
                        ("name", esc(tcx.item_name(did).as_str())),
                        ("kind", esc(&format!("{:?}", kind))),
                        ("vis", cx.vis(did)),
                        ("module", esc(&cx.path(nearest_mod(tcx, id)))),
                        ("parent", cx.lid(tcx.parent(did))),
                        ("generics", arr(gnames)),
                        ("variants", arr(variants)),
                        ("span", cx.span(tcx.def_span(did))),
                    ]));
                }
                DefKind::Impl { of_trait } => {
                    let self_ty = tcx.type_of(did).instantiate_identity().skip_norm_wip();
                    let mut v: Vec<(&str, String)> = vec![
                        ("lid", cx.lid(did)),
                        ("module", esc(&cx.path(nearest_mod(tcx, id)))),
                        ("parent", cx.lid(tcx.parent(did))),
                        ("self", cx.ty(self_ty)),
                        ("span", cx.span(tcx.def_span(did))),
                    ];
                    if of_trait {
                        let tr = tcx.impl_trait_ref(did).instantiate_identity().skip_norm_wip();
                        v.push(("trait", esc(&cx.path(tr.def_id))));
                        v.push(("trait_full", esc(&with_no_trimmed_paths!(format!("{}", tr)))));
                        v.push(("trait_args", cx.gargs(tr.args, 1)));
                        let hdr = tcx.impl_trait_header(did);
                        v.push(("unsafe", b(!hdr.safety.is_safe())));
                        v.push(("negative", b(matches!(hdr.polarity, ty::ImplPolarity::Negative))));
                    }
                    let mut items = vec![];
                    for it in tcx.associated_items(did).in_definition_order() {
                        let mut iv: Vec<(&str, String)> = vec![
                            ("name", esc(it.name().as_str())),
                            ("lid", cx.lid(it.def_id)),
                            ("kind", esc(match it.kind {
                                ty::AssocKind::Fn { .. } => "fn",
                                ty::AssocKind::Type { .. } => "type",
                                ty::AssocKind::Const { .. } => "const",
                            })),
                        ];
                        if matches!(it.kind, ty::AssocKind::Type { .. }) {
                            iv.push((
                                "ty",
                                cx.ty(tcx.type_of(it.def_id).instantiate_identity().skip_norm_wip()),
                            ));
                        }
                        items.push(obj(iv));
                    }
                    v.push(("items", arr(items)));
                    impls.push(obj(v));
                }
                DefKind::Use => {
                    let item = tcx.hir_expect_item(id);
                    if let rustc_hir::ItemKind::Use(path, ukind) = &item.kind {
                        let mut targets = vec![];
                        for res in path.res.iter() {
                            if let Some(rustc_hir::def::Res::Def(k, d)) = res {
                                targets.push(obj(vec![
                                    ("path", esc(&cx.path(*d))),
                                    ("lid", cx.lid(*d)),
                                    ("kind", esc(&format!("{:?}", k))),
                                ]));
                            }
                        }
                        uses.push(obj(vec![
                            ("lid", cx.lid(did)),
                            ("module", esc(&cx.path(nearest_mod(tcx, id)))),
                            ("vis", cx.vis(did)),
                            ("ukind", esc(&format!("{:?}", ukind).split('(').next().unwrap_or("").to_string())),
                            // the name the import binds (`use a::B as c` binds `c`), and whether it sits directly in a module
                            ("name", esc(&match ukind { rustc_hir::UseKind::Single(ident) => ident.name.as_str().to_string(), _ => String::new() })),
                            ("in_mod", b(tcx.def_kind(tcx.parent(did)) == DefKind::Mod)),
                            ("owner", esc(&cx.path(tcx.parent(did)))),
                            ("targets", arr(targets)),
                            ("span", cx.span(item.span)),
                        ]));
                    }
                }
                DefKind::Const { .. } | DefKind::Static { .. } => {
                    consts.push(obj(vec![
                        ("lid", cx.lid(did)),
                        ("path", esc(&cx.path(did))),
                        ("name", esc(tcx.item_name(did).as_str())),
                        ("kind", esc(&format!("{:?}", kind).split(' ').next().unwrap_or("").to_string())),
                        ("ty", cx.ty(tcx.type_of(did).instantiate_identity().skip_norm_wip())),
                        ("span", cx.span(tcx.def_span(did))),
                    ]));
                }
                _ => {}
            }
        }

        for ldid in tcx.hir_body_owners() {
            let did = ldid.to_def_id();
            let kind = tcx.def_kind(did);
            if !matches!(kind, DefKind::Fn | DefKind::AssocFn | DefKind::Closure) {
                continue;
            }
            let mut v: Vec<(&str, String)> = vec![
                ("lid", cx.lid(did)),
                ("path", esc(&cx.path(did))),
                ("kind", esc(&format!("{:?}", kind))),
                ("module", esc(&cx.path(nearest_mod(tcx, ldid)))),
                ("parent", cx.lid(tcx.parent(did))),
                ("span", cx.span(tcx.def_span(did))),
            ];
            if matches!(kind, DefKind::Fn | DefKind::AssocFn) {
                v.push(("name", esc(tcx.item_name(did).as_str())));
                v.push(("vis", cx.vis(did)));
                let sig = tcx.fn_sig(did).instantiate_identity().skip_norm_wip().skip_binder();
                v.push(("unsafe", b(!sig.safety().is_safe())));
                v.push(("const", b(tcx.is_const_fn(did))));
                v.push(("inputs", arr(sig.inputs().iter().map(|t| cx.ty(*t)).collect())));
                v.push(("output", cx.ty(sig.output())));
                let gens = tcx.generics_of(did);
                v.push((
                    "generics",
                    arr(gens.own_params.iter().map(|p| esc(p.name.as_str())).collect()),
                ));
            } else {
                v.push(("name", esc("{closure}")));
            }
            let body = tcx.optimized_mir(did);
            let env = ty::TypingEnv::post_analysis(tcx, did);
            let bcx = BodyCx { cx: &cx, owner: did, body, env };
            v.extend(bcx.dump());
            // promoted constants of this body
            let proms = tcx.promoted_mir(did);
            let mut pj = vec![];
            for p in proms.iter() {
                let pcx = BodyCx { cx: &cx, owner: did, body: p, env };
                pj.push(obj(pcx.dump()));
            }
            v.push(("promoted", arr(pj)));
            fns.push(obj(v));
        }

        let doc = obj(vec![
            ("crate", esc(cn.as_str())),
            ("mods", arr(mods)),
            ("adts", arr(adts)),
            ("impls", arr(impls)),
            ("uses", arr(uses)),
            ("consts", arr(consts)),
            ("items", arr(items)),
            ("fns", arr(fns)),
            ("types", arr(cx.ty_tab.borrow().clone())),
        ]);
        let p = format!("{}/{}-{}.json", dir, cn.as_str(), std::process::id());
        std::fs::write(&p, doc).unwrap();
        Compilation::Continue
    }
}

fn main() {
    let argv: Vec<String> = std::env::args().collect();
    // RUSTC_WORKSPACE_WRAPPER: argv[1] is the path of the real rustc.
    let args: Vec<String> =
        std::iter::once("rustc".to_string()).chain(argv.into_iter().skip(2)).collect();
    rustc_driver::run_compiler(&args, &mut Cb);
}
