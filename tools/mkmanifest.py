#!/usr/bin/env python3
"""Writes /verif/MANIFEST.json from tools/nv/meta.py."""
import json, os, sys
sys.path.insert(0, os.path.dirname(os.path.abspath(__file__)))
from nv import meta
ALL = [f'C{i:02d}' for i in range(1, 17)]
checks = []
for pid in ALL:
    m = meta.META.get(pid)
    if not m:
        continue
    checks.append({
        'property_id': pid,
        'quick_cmd': f'python3 tools/nv.py check {pid} --tier quick',
        'thorough_cmd': f'python3 tools/nv.py check {pid} --tier thorough',
        'evidence_file': f'/verif/evidence/{pid}.json',
        'replay_cmd_template': 'python3 tools/nv.py replay {path}',
        'engine': 'nv',
        'level_claimed': {'category': m['level'], 'text': m['text'], 'design_ref': m['design_ref']},
        'level_note': m['note'],
        'technique': m['technique'],
    })
na = [{'property_id': p, 'reason': meta.NOT_YET.get(p, 'check under construction in this session; see DESIGN.md section 5 for the planned static rule')}
      for p in ALL if p not in meta.META]
man = {
    'version': 1,
    'setup_cmd': './setup.sh',
    'hooks': {
        'guard': 'none',
        'enable': 'n/a - no source hooks: checks analyse macro expansions (MIR / rustc verdicts) of corpus crates built against the unmodified working tree',
        'baseline_off_cmd': 'cd /repo && cargo test --workspace --no-fail-fast --offline',
        'source_commits': json.load(open(os.path.join(os.path.dirname(__file__), '..', 'repo_commits.json'))) if os.path.exists(os.path.join(os.path.dirname(__file__), '..', 'repo_commits.json')) else [],
        'add_only': True,
    },
    'engines': [
        {'name': 'numir', 'path': 'tools/numir', 'serves_properties': [c['property_id'] for c in checks],
         'kind_free_text': 'rustc_private driver (nightly) dumping ADT/impl/visibility facts and MIR of macro-generated bodies as JSON'},
        {'name': 'nv', 'path': 'tools/nv', 'serves_properties': [c['property_id'] for c in checks],
         'kind_free_text': 'Python: declaration corpus + reference model, MIR path enumeration / term reconstruction, rules, witnesses, evidence'},
    ],
    'checks': checks,
    'notes': 'Static analysis only: no generated function is executed by any check. Known, unrepaired defects are listed in known_findings.json.',
    'not_applicable': na,
}
json.dump(man, open(os.path.join(os.path.dirname(__file__), '..', 'MANIFEST.json'), 'w'), indent=1)
print('checks:', [c['property_id'] for c in checks], 'not_applicable:', [n['property_id'] for n in na])
