"""Registration data for MANIFEST.json (written by tools/mkmanifest.py)."""

TRUSTED = ("rustc front end, MIR construction and const evaluation; core/alloc/std semantics of the resolved callees "
           "(str::trim, case mapping, primitive comparison, is_finite, Result/Option combinators); user closures/functions "
           "are opaque pure callees; the corpus is a finite sample of the declaration space")

META = {
    'C01': dict(level='translation_validation', design_ref='DESIGN.md 4.1-4.2, 5/C01',
                technique='MIR path enumeration of generated constructors vs reference model (translation validation)',
                text='For every corpus declaration (inner type x sanitizer list x validator list x bound spelling x const_fn/generics) the MIR of try_new/new is '
                     'enumerated path by path with generated callees inlined; the extracted guard program (sanitizer chain, ordered checks with relation, measured '
                     'quantity and folded bound, rejecting siblings, absence of panic edges) must equal the reference model. Holds for all inputs of each analysed declaration. The generator is additionally linted for profile- or cfg-dependent tokens in generated code (G-PROFILE): the analysed expansion is the dev-profile one. R-HYGIENE: the generated module (which glob-imports the items of the declaring module) defines and imports no name other than the type, its error types and `__`-prefixed ones, nor does a generated function body that holds user tokens - any other name would capture the user item of that name in the spliced bounds, closures and defaults. R-SCOPE (known finding): the bound denotes what the expression means where it is written.',
                note=TRUSTED),
    'C03': dict(level='other', design_ref='DESIGN.md 4.2 R-DELEG, 5/C03',
                technique='outcome-table equivalence of conversion bodies and the constructor (path-exhaustive dataflow)',
                text='For every TryFrom/From/FromStr(String)/Default impl in the corpus the complete outcome table (path conditions -> returned term / divergence) '
                     'is extracted from MIR and must be identical to the table of the canonical constructor applied to the unmodified argument (for Default: to the declared default, Err rows diverging).',
                note=TRUSTED),
    'C04': dict(level='other', design_ref='DESIGN.md 4.2 R-DESER, 5/C04',
                technique='MIR outcome tables of Deserialize::deserialize and the visitor vs constructor table; who-may-construct scan',
                text='deserialize must hand the deserializer to deserialize_newtype_struct with a visitor that implements only visit_newtype_struct, whose outcome table is: inner deserialize error returned unchanged; '
                     'otherwise exactly the constructor table on the deserialized inner value, rejections wrapped in de::Error::custom. Format-independent, so it holds for every document and nesting position. Compile-verdict witnesses: newtypes over Cow<str> / Vec<T> are DeserializeOwned when instantiated with owned parameters.',
                note=TRUSTED + '; serde formats call visit_newtype_struct or fall back to the default invalid-type error'),
    'C06': dict(level='other', design_ref='DESIGN.md 4.2 R-FROMSTR, 5/C06',
                technique='MIR outcome table of from_str vs table built from inner parse + constructor',
                text='from_str of integer/float/other newtypes: first condition is the inner type\'s parse of the unmodified &str; Err edge returns Parse(e); Ok edge is exactly the constructor table with Err wrapped in Validate; no diverging row.',
                note=TRUSTED),
    'C07': dict(level='translation_validation', design_ref='DESIGN.md 4.2 R-VAL/R-ORDER/R-VARIANT, 5/C07',
                technique='decision-chain extraction from MIR: i-th check <-> i-th validator <-> i-th variant; ADT facts of the error enum',
                text='For all ordered validator subsets in the corpus: the accepting path passes the declared checks in declaration order; failing check i after passing 0..i-1 returns exactly variant i; '
                     'one rejecting path per validator; the error enum has exactly those unit variants; custom validation returns the user error unchanged.',
                note=TRUSTED),
    'C10': dict(level='other', design_ref='DESIGN.md 4.2 R-SER/R-DESER, 5/C10',
                technique='MIR shape of serialize (serialize_newtype_struct(name, &self.0)) + R-DESER; composition argument',
                text='Structural clause only: serialize is exactly serializer.serialize_newtype_struct("<T>", &self.0) and deserialize is the constructor on the inner value read back; '
                     'round trip then follows from the inner value round-tripping (premise) and C11/C01. Byte identity in JSON/MessagePack rests on those crates treating newtype structs transparently (assumption). Compile-verdict witnesses: an owned value of a lifetime- or type-parameterised newtype is DeserializeOwned (the generated impl is as general as the inner type allows).',
                note=TRUSTED + '; serde_json/rmp-serde serialize_newtype_struct is transparent (not analysed)'),
    'C12': dict(level='other', design_ref='DESIGN.md 5/C12',
                technique='MIR: is_finite dominates every construction on all entry points; Ord::cmp outcome table; derive delegation shapes',
                text='For float newtypes deriving Eq/Ord: a finite validator is present; every accepting constructor path passed is_finite on the stored value; every other entry point has the constructor\'s outcome table; '
                     'eq/partial_cmp delegate to the inner float; cmp = partial_cmp unwrapped whose only diverging edge is the None (NaN) arm, unreachable for finite values.',
                note=TRUSTED + '; IEEE total order on non-NaN values is std\'s'),
    'C13': dict(level='other', design_ref='DESIGN.md 4.2 R-VIEW/R-DERIVE, 5/C13',
                technique='MIR return-term shapes of view/comparison trait methods (single-field delegation)',
                text='AsRef/Deref/Borrow return a shared view of exactly self.0; Into/into_inner move exactly self.0; Display delegates to the inner Display with the same formatter; IntoIterator iterates self.0 / &self.0; '
                     'eq/partial_cmp/cmp/hash/clone are the single-field delegations and define no other method.',
                note=TRUSTED),
}

META.update({
    'C05': dict(level='other', design_ref='DESIGN.md 4.2 R-CTOR/R-MUT/R-VIS, 4.5, 5/C05',
                technique='who-may-construct / who-may-mutate scan over all MIR bodies + impl-set and visibility facts + compile-fail witnesses with twins',
                text='Structural: every construction of a newtype (aggregate or constructor-as-function) in any body of the crate lies in the guarded constructor, the flagged unsafe new_unchecked or derived clone; no store/&mut/raw pointer into the field, no transmute; '
                     'no DerefMut/AsMut/BorrowMut/IndexMut/&mut IntoIterator impl, no fn returning &mut or taking &mut T; field private to a private module, re-exports exactly the declared visibility; every conversion has the constructor\'s outcome table. '
                     'Witnesses: a catalogue of ~160 bypass programs x 4 families must be rejected by rustc at the offending line with the expected error code, each with a compiling twin.',
                note=TRUSTED + '; rustc privacy and borrow checking'),
    'C09': dict(level='other', design_ref='DESIGN.md 4.3, 5/C09',
                technique='outcome tables of `arbitrary`: range containment by constant folding, panic-row infeasibility by interval evaluation, reachability by folding the extracted rows at concrete draws (end points, special values, a fixed spread; all draws of 8/16-bit integer generators of another shape)',
                text='PARTIAL. Decided: (all families) any returned value comes from the canonical constructor (R-CTOR + table); (integers) int_in_range endpoints fold into the valid range and every panic row is infeasible for every value of the range; a generator of another shape that is a function of one integer draw is decided by folding its extracted rows (conditions, overflow assertions, stored term; core integer methods modelled) over every draw of an 8/16-bit type / the special values of wider ones; '
                     '(strings) target-length range is inside the declared length range, case-mapping growth is flagged structurally; (floats) every panic row that depends on the first draw only is either proven infeasible by interval evaluation, '
                     'or shown reachable by a concrete attained draw out of ~100 fixed ones (violation); rows reached through the retry loop are decided with the opaque float rebuilt from the mutated bytes as the interval variable (constrained by the loop exit test), intervals being narrowed by the comparisons on the path. Not decided: termination of loops; rows the interval reasoning cannot settle are reported as undecided (none in the quick tier at present).',
                note=TRUSTED + '; arbitrary::Unstructured::int_in_range returns a value of the range; IEEE-754 arithmetic reproduced in the declared float type'),
    'C14': dict(level='translation_validation', design_ref='DESIGN.md 4.3 R-ARB-INT, 5/C14',
                technique='constant folding of the int_in_range endpoints in MIR vs the reference valid range; outcome table of arbitrary vs constructor table; other generator shapes: produced set over all draws of 8/16-bit types vs the valid set',
                text='For all integer types x bound-kind combinations x spellings (literal, MIN/MAX, constants, shift/arithmetic expressions): the folded int_in_range endpoints equal the reference model\'s [lo, hi] exactly, and the drawn value reaches the canonical constructor unmodified; with a non-empty valid set some path returns a value (`Range::is_empty` guards fold on constant end points). Generators that are another function of one draw, or of several small draws (sign + magnitude): the set of stored values over all assignments of the draws must be exactly the valid set (8/16-bit single draws, small multi-draw products); wider draw types are left undecided. '
                     'Surjectivity of int_in_range onto its range is the arbitrary crate\'s contract.',
                note=TRUSTED + '; arbitrary::Unstructured::int_in_range is onto its range'),
    'C16': dict(level='translation_validation', design_ref='DESIGN.md 4.2 R-MSG, 5/C16',
                technique='sibling agreement: relation stated by the Display template (decoded from fmt::Arguments in MIR) vs relation enforced by the check of the same variant',
                text='For every bound-violation variant of every corpus declaration: the format template (decoded from the compiled fmt::Arguments bytes) names the newtype; an argument is the very bound term the check compares against; '
                     'the relation phrase, mapped through a fixed vocabulary to a set of orderings, equals the accept-set extracted from the validator check (a float guard that orders through total_cmp is a different relation and is reported). ParseError::Validate and serde errors display the validation error through its own Display, and the error a conversion (TryFrom, FromStr, Deserialize) reports for an input is the error of the constructor for that input: their MIR outcome tables equal the table of the constructor, so no conversion states a violation on its own.',
                note=TRUSTED + '; the relation vocabulary (greater than / at least / less or equal to / ...) is the reading of the English phrases'),
})

META.update({
    'C02': dict(level='translation_validation', design_ref='DESIGN.md 4.2 R-BOUND/R-SAN/R-VAL, 4.4 G-SPEC/G-LWW, 5/C02',
                technique='MIR guard-program extraction over a spelling x layout corpus vs the value each spelling denotes; outcome-table comparison of every conversion / from_str / deserialize with the constructor; compile verdicts for forms that must be refused; lints on the attribute parser',
                text='Every bound spelling (literals of both signs, underscores, int literal for float, exponent floats, T::MIN/MAX, constants, -CONST, !literal, parenthesised / shift / arithmetic / cast / block / if / match expressions, macro invocations, module paths, calls) x attribute layout (block order, trailing commas, closure vs path, regex literal vs static) '
                     'is expanded and the extracted guard program must contain every written rule with the bound the spelling denotes (constants folded by rustc and by the checker). Repeated blocks must be refused or all enforced. Every route into the type (each conversion, from_str, deserialize) must have the outcome table of the constructor, so that no written rule is dropped on one route (R-DELEG over the same corpus). '
                     'Parser lints: no speculative parse on the live token stream followed by another alternative (G-SPEC); no unguarded last-writer-wins assignment in the attribute loop (G-LWW).',
                note=TRUSTED),
    'C08': dict(level='other', design_ref='DESIGN.md 5/C08, Appendix A',
                technique='rustc accept/reject verdicts over a declaration grid vs an independent reference predicate; folding of the generated #[test] bodies (cfg(test) MIR)',
                text='~590 declarations generated from the documented grammar (derive matrix 22 traits x 4 families x validation x finite x feature set; struct shapes; unknown / wrong-family / wrong-case names; duplicates; literal bounds in every relative position; with/error pairing; regex; flags; type-parameter names) '
                     'are compiled one by one and the verdict compared with the reference predicate; every corpus declaration the model accepts must expand. The generated boundary/default unit tests are compiled in test mode and their bodies folded: they must fail exactly for contradictory expression bounds / invalid defaults.',
                note=TRUSTED + '; the reference predicate is written from README/docs (Appendix A), cells where docs and code disagree without a guarantee at stake are unasserted'),
    'C11': dict(level='other', design_ref='DESIGN.md 5/C11',
                technique='term rewriting of the extracted sanitizer chain (S o S = S under named std lemmas) + purity of the extracted checks + re-entry table comparison + outcome tables of every exit/re-entry step of the chain clause',
                text='PARTIAL. For declarations with built-in guards only: the stored value is a chain of built-in sanitizers; the chain applied twice reduces to itself under lemmas L1-L3 about std (trim / case mapping idempotent, case mapping preserves the absence of outer whitespace); '
                     'every check is a recognised test of the stored value through pure std callees; re-entering the constructor with the stored value evaluates the same checks. Chain clause: into_inner/Into/Serialize hand out exactly the stored value and TryFrom/FromStr/Deserialize are the constructor on what the inner type reads back. Declarations with a custom sanitizer ("declared idempotent"): the generated pipeline is the declared one, step for step in declared order. The Unicode lemmas themselves are assumptions.',
                note=TRUSTED + '; lemmas L1-L3 (Unicode data) are assumed, not analysed'),
    'C15': dict(level='other', design_ref='DESIGN.md 4.2 R-NOSTD, 4.4 G-STD, 5/C15',
                technique='compile verdict of a #![no_std] corpus crate (stable + nightly) against nutype with default features off; resolved-path scan of its MIR; lint of quote! templates for std paths',
                text='A #![no_std] crate with integer / float / other declarations (every derivable trait alone and in full sets, serde and Arbitrary, const_fn, default, custom error, generics) compiles against nutype with default-features = false; '
                     'every type, callee and trait its generated code resolves to lives outside `std`; every `std::` path in a quote! template of the generator is on an allow-list with its cfg context verified. A control witness shows the setup rejects a std path.',
                note=TRUSTED + '; the cfg(not(ERROR_IN_CORE)) branch (rustc < 1.81) cannot be built here and is covered syntactically only'),
})

NOT_YET = {
}


# obligation floors: half of what the quick tier counted on the pinned tree (2026-10-02). A run that finds no violation but
# discharges fewer obligations than this has lost its anchors (impls not found, rules returning early): no verdict.
OB_FLOOR = {'C01': 28600, 'C02': 41917, 'C03': 7187, 'C04': 4411, 'C05': 112208, 'C06': 4683, 'C07': 24467, 'C08': 1704, 'C09': 2614, 'C10': 6278, 'C11': 25241, 'C12': 2402, 'C13': 30408, 'C14': 2756, 'C15': 187, 'C16': 6082}
