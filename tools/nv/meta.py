"""Registration data for MANIFEST.json (written by tools/mkmanifest.py)."""

TRUSTED = ("rustc front end, MIR construction and const evaluation; core/alloc/std semantics of the resolved callees "
           "(str::trim, case mapping, primitive comparison, is_finite, Result/Option combinators); user closures/functions "
           "are opaque pure callees; the corpus is a finite sample of the declaration space")

META = {
    'C01': dict(level='translation_validation', design_ref='DESIGN.md 4.1-4.2, 5/C01',
                technique='MIR path enumeration of generated constructors vs reference model (translation validation)',
                text='For every corpus declaration (inner type x sanitizer list x validator list x bound spelling x const_fn/generics) the MIR of try_new/new is '
                     'enumerated path by path with generated callees inlined; the extracted guard program (sanitizer chain, ordered checks with relation, measured '
                     'quantity and folded bound, rejecting siblings, absence of panic edges) must equal the reference model. Holds for all inputs of each analysed declaration.',
                note=TRUSTED),
    'C03': dict(level='other', design_ref='DESIGN.md 4.2 R-DELEG, 5/C03',
                technique='outcome-table equivalence of conversion bodies and the constructor (path-exhaustive dataflow)',
                text='For every TryFrom/From/FromStr(String)/Default impl in the corpus the complete outcome table (path conditions -> returned term / divergence) '
                     'is extracted from MIR and must be identical to the table of the canonical constructor applied to the unmodified argument (for Default: to the declared default, Err rows diverging).',
                note=TRUSTED),
    'C04': dict(level='other', design_ref='DESIGN.md 4.2 R-DESER, 5/C04',
                technique='MIR outcome tables of Deserialize::deserialize and the visitor vs constructor table; who-may-construct scan',
                text='deserialize must hand the deserializer to deserialize_newtype_struct with a visitor that implements only visit_newtype_struct, whose outcome table is: inner deserialize error returned unchanged; '
                     'otherwise exactly the constructor table on the deserialized inner value, rejections wrapped in de::Error::custom. Format-independent, so it holds for every document and nesting position.',
                note=TRUSTED + '; serde formats call visit_newtype_struct or fall back to the default invalid-type error'),
    'C06': dict(level='other', design_ref='DESIGN.md 4.2 R-FROMSTR, 5/C06',
                technique='MIR outcome table of from_str vs table built from inner parse + constructor',
                text='from_str of integer/float/other newtypes: first condition is the inner type\'s parse of the unmodified &str; Err edge returns Parse(e); Ok edge is exactly the constructor table with Err wrapped in Validate; no diverging row.',
                note=TRUSTED),
    'C07': dict(level='translation_validation', design_ref='DESIGN.md 4.2 R-VAL/R-ORDER/R-VARIANT, 5/C07',
                technique='decision-chain extraction from MIR: i-th check <-> i-th validator <-> i-th variant; ADT facts of the error enum',
                text='For all ordered validator subsets in the corpus: the accepting path passes the declared checks in declaration order; failing check i after passing 0..i-1 returns exactly variant i; '
                     'one rejecting path per validator; the error enum has exactly those unit variants; custom validation returns the user error unchanged.',
                note=TRUSTED),
    'C10': dict(level='other', design_ref='DESIGN.md 4.2 R-SER/R-DESER, 5/C10',
                technique='MIR shape of serialize (serialize_newtype_struct(name, &self.0)) + R-DESER; composition argument',
                text='Structural clause only: serialize is exactly serializer.serialize_newtype_struct("<T>", &self.0) and deserialize is the constructor on the inner value read back; '
                     'round trip then follows from the inner value round-tripping (premise) and C11/C01. Byte identity in JSON/MessagePack rests on those crates treating newtype structs transparently (assumption).',
                note=TRUSTED + '; serde_json/rmp-serde serialize_newtype_struct is transparent (not analysed)'),
    'C12': dict(level='other', design_ref='DESIGN.md 5/C12',
                technique='MIR: is_finite dominates every construction on all entry points; Ord::cmp outcome table; derive delegation shapes',
                text='For float newtypes deriving Eq/Ord: a finite validator is present; every accepting constructor path passed is_finite on the stored value; every other entry point has the constructor\'s outcome table; '
                     'eq/partial_cmp delegate to the inner float; cmp = partial_cmp unwrapped whose only diverging edge is the None (NaN) arm, unreachable for finite values.',
                note=TRUSTED + '; IEEE total order on non-NaN values is std\'s'),
    'C13': dict(level='other', design_ref='DESIGN.md 4.2 R-VIEW/R-DERIVE, 5/C13',
                technique='MIR return-term shapes of view/comparison trait methods (single-field delegation)',
                text='AsRef/Deref/Borrow return a shared view of exactly self.0; Into/into_inner move exactly self.0; Display delegates to the inner Display with the same formatter; IntoIterator iterates self.0 / &self.0; '
                     'eq/partial_cmp/cmp/hash/clone are the single-field delegations and define no other method.',
                note=TRUSTED),
}

NOT_YET = {
}
