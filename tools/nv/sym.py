"""Path-by-path value-term reconstruction over the MIR facts dumped by numir.

Terms are tuples (tag, ...).  `Exec.paths(lid, args)` enumerates every
entry->return path of a body (cleanup/unwind edges excluded), inlining callees
that are *generated* (their definition span comes from the macro expansion) and
applying summaries of a closed list of std combinators (Result/Option/`?`).
Every other callee stays an opaque `call` term with its resolved def-path.
"""
import json
import struct
import math
import re

MAX_PATHS = 4000
MAX_DEPTH = 12


# ----------------------------------------------------------------------------- facts

class Facts:
    def __init__(self, path):
        with open(path) as f:
            d = json.load(f)
        self.crate = d['crate']
        self.types = d['types']
        self.fns = {f['lid']: f for f in d['fns']}
        self.adts = {a['lid']: a for a in d['adts']}
        self.adt_by_path = {a['path']: a for a in d['adts']}
        self.impls = d['impls']
        self.impl_by_lid = {i['lid']: i for i in d['impls']}
        self.mods = d['mods']
        self.uses = d['uses']
        self.consts = d['consts']
        self.items = d['items']
        self.fn_by_path = {}
        for f in d['fns']:
            self.fn_by_path.setdefault(f['path'], f)

    def ty(self, i):
        return self.types[i]

    def tys(self, i):
        return self.types[i]['s']

    def fns_in_module(self, modpath):
        return [f for f in self.fns.values() if f['module'] == modpath or f['module'].startswith(modpath + '::')]


# ----------------------------------------------------------------------------- numerics

INT_TYPES = {'u8': 8, 'u16': 16, 'u32': 32, 'u64': 64, 'u128': 128, 'usize': 64,
             'i8': 8, 'i16': 16, 'i32': 32, 'i64': 64, 'i128': 128, 'isize': 64}


def is_int(t):
    return t in INT_TYPES


def is_float(t):
    return t in ('f32', 'f64')


def to_signed(bits, w):
    return bits - (1 << w) if bits >> (w - 1) else bits


def int_value(t, bits):
    w = INT_TYPES[t]
    return to_signed(bits, w) if t[0] == 'i' else bits


def int_wrap(t, v):
    w = INT_TYPES[t]
    return v & ((1 << w) - 1)


def float_value(t, bits):
    if t == 'f32':
        return struct.unpack('<f', struct.pack('<I', bits))[0]
    return struct.unpack('<d', struct.pack('<Q', bits))[0]


def float_bits(t, x):
    if t == 'f32':
        try:
            return struct.unpack('<I', struct.pack('<f', x))[0]
        except OverflowError:
            return 0x7f800000 if x > 0 else 0xff800000
    return struct.unpack('<Q', struct.pack('<d', x))[0]


def const_value(term):
    """python value of a scalar const term, or None"""
    if term[0] != 'const' or term[2] is None:
        return None
    t, bits = term[1], term[2]
    if is_int(t):
        return int_value(t, bits)
    if is_float(t):
        return float_value(t, bits)
    if t == 'bool':
        return bool(bits)
    if t == 'char':
        return bits
    return None


def mk_const(t, v):
    if is_int(t):
        return ('const', t, int_wrap(t, v), None)
    if is_float(t):
        return ('const', t, float_bits(t, v), None)
    if t == 'bool':
        return ('const', 'bool', 1 if v else 0, None)
    return ('unknown', 'mk_const ' + t)


CMP = {'Eq': lambda a, b: a == b, 'Ne': lambda a, b: a != b, 'Lt': lambda a, b: a < b,
       'Le': lambda a, b: a <= b, 'Gt': lambda a, b: a > b, 'Ge': lambda a, b: a >= b}


def fold_bin(op, a, b, aty):
    """constant folding of MIR binary ops; returns a term or None"""
    if a[0] != 'const' or b[0] != 'const' or a[2] is None or b[2] is None:
        return None
    t = a[1]
    av, bv = const_value(a), const_value(b)
    if av is None or bv is None:
        return None
    if op in CMP:
        return mk_const('bool', CMP[op](av, bv))
    if is_int(t):
        w = INT_TYPES[t]
        lo = -(1 << (w - 1)) if t[0] == 'i' else 0
        hi = (1 << (w - 1)) - 1 if t[0] == 'i' else (1 << w) - 1
        base = op.replace('WithOverflow', '').replace('Unchecked', '')
        r = None
        if base == 'Add':
            r = av + bv
        elif base == 'Sub':
            r = av - bv
        elif base == 'Mul':
            r = av * bv
        elif base == 'Div':
            if bv == 0:
                return None
            r = abs(av) // abs(bv) * (1 if (av >= 0) == (bv >= 0) else -1)
        elif base == 'Rem':
            if bv == 0:
                return None
            r = abs(av) % abs(bv) * (1 if av >= 0 else -1)
        elif base == 'BitAnd':
            r = int_value(t, a[2] & b[2])
        elif base == 'BitOr':
            r = int_value(t, a[2] | b[2])
        elif base == 'BitXor':
            r = int_value(t, a[2] ^ b[2])
        elif base == 'Shl':
            sh = b[2] % w
            r = int_value(t, (a[2] << sh) & ((1 << w) - 1))
        elif base == 'Shr':
            sh = b[2] % w
            r = av >> sh
        if r is None:
            return None
        if op.endswith('WithOverflow'):
            ovf = not (lo <= r <= hi)
            return ('tuple', (mk_const(t, r), mk_const('bool', ovf)))
        return mk_const(t, r)
    if is_float(t):
        try:
            if op == 'Add':
                r = av + bv
            elif op == 'Sub':
                r = av - bv
            elif op == 'Mul':
                r = av * bv
            elif op == 'Div':
                if bv == 0:
                    if av == 0 or av != av:
                        r = float('nan')
                    else:
                        r = math.copysign(float('inf'), av) * math.copysign(1.0, bv)
                else:
                    r = av / bv
            elif op == 'Rem':
                r = math.fmod(av, bv)
            else:
                return None
        except (OverflowError, ValueError):
            return None
        if t == 'f32':
            r = float_value('f32', float_bits('f32', r))
        return mk_const(t, r)
    if t == 'bool':
        if op == 'BitAnd':
            return mk_const('bool', av and bv)
        if op == 'BitOr':
            return mk_const('bool', av or bv)
        if op == 'BitXor':
            return mk_const('bool', av != bv)
    return None


def fold_un(op, a):
    if a[0] != 'const' or a[2] is None:
        return None
    t = a[1]
    v = const_value(a)
    if v is None:
        return None
    if op == 'Not':
        if t == 'bool':
            return mk_const('bool', not v)
        if is_int(t):
            return ('const', t, (~a[2]) & ((1 << INT_TYPES[t]) - 1), None)
    if op == 'Neg':
        if is_int(t):
            return mk_const(t, -v)
        if is_float(t):
            # sign-bit flip (exact for NaN and zero as well)
            w = 32 if t == 'f32' else 64
            return ('const', t, a[2] ^ (1 << (w - 1)), None)
    return None


def fold_cast(kind, ty, a):
    if a[0] != 'const' or a[2] is None:
        return None
    v = const_value(a)
    if v is None:
        return None
    if kind == 'IntToInt' and is_int(ty):
        return mk_const(ty, int(v))
    if kind == 'IntToFloat' and is_float(ty):
        return mk_const(ty, float(v))
    if kind == 'FloatToFloat' and is_float(ty):
        return mk_const(ty, v)
    if kind == 'FloatToInt' and is_int(ty):
        if v != v:
            return mk_const(ty, 0)
        w = INT_TYPES[ty]
        lo = -(1 << (w - 1)) if ty[0] == 'i' else 0
        hi = (1 << (w - 1)) - 1 if ty[0] == 'i' else (1 << w) - 1
        if v == float('inf'):
            return mk_const(ty, hi)
        if v == float('-inf'):
            return mk_const(ty, lo)
        return mk_const(ty, max(lo, min(hi, int(v))))
    return None


# ----------------------------------------------------------------------------- callees

class Callee:
    __slots__ = ('key', 'path', 'full', 'lid', 'name', 'trait', 'safe', 'res_path', 'res_lid', 'res_kind',
                 'span', 'res_span', 'ctor', 'dk', 'gargs', 'impl_self', 'res_impl_self')

    def __init__(self, d):
        self.path = d['path']
        self.full = d['full']
        self.key = d['full']
        self.lid = d['lid']
        self.name = d['name']
        self.trait = d.get('trait')
        self.safe = d.get('safe', True)
        self.span = d.get('span')
        self.dk = d.get('dk')
        self.ctor = d.get('ctor')
        self.gargs = d.get('gargs', [])
        self.impl_self = d.get('impl_self')
        r = d.get('res') or {}
        self.res_path = r.get('path')
        self.res_lid = r.get('lid')
        self.res_kind = r.get('kind')
        self.res_span = r.get('span')
        self.res_impl_self = r.get('impl_self')

    def __repr__(self):
        return f'<{self.full}>'

    def best_path(self):
        return self.res_path or self.path

    def target_lid(self):
        return self.res_lid if self.res_lid is not None else self.lid

    def target_span(self):
        return self.res_span if self.res_lid is not None else self.span


RESULT_PATHS = ('core::result::Result', 'std::result::Result')
OPTION_PATHS = ('core::option::Option', 'std::option::Option')
CF_PATHS = ('core::ops::ControlFlow', 'std::ops::ControlFlow', 'core::ops::control_flow::ControlFlow')


def mk_ok(x):
    return ('adt', 'core::result::Result', 0, 'Ok', (x,))


def mk_err(x):
    return ('adt', 'core::result::Result', 1, 'Err', (x,))


def mk_some(x):
    return ('adt', 'core::option::Option', 1, 'Some', (x,))


MK_NONE = ('adt', 'core::option::Option', 0, 'None', ())


def norm_adt_path(p):
    if p in RESULT_PATHS:
        return 'core::result::Result'
    if p in OPTION_PATHS:
        return 'core::option::Option'
    if p in CF_PATHS:
        return 'core::ops::ControlFlow'
    return p


class PathEnd(Exception):
    pass


class State:
    __slots__ = ('env', 'ptr', 'conds', 'events', 'known', 'visits')

    def __init__(self):
        self.env = {}
        self.ptr = {}
        self.conds = []
        self.events = []
        self.known = {}
        self.visits = {}

    def fork(self):
        s = State()
        s.env = dict(self.env)
        s.ptr = dict(self.ptr)
        s.conds = list(self.conds)
        s.events = list(self.events)
        s.known = dict(self.known)
        s.visits = dict(self.visits)
        return s


class Outcome:
    """one entry->exit path"""
    __slots__ = ('kind', 'ret', 'conds', 'events', 'why')

    def __init__(self, kind, ret, conds, events, why=None):
        self.kind = kind      # 'return' | 'diverge' | 'loop' | 'unknown'
        self.ret = ret
        self.conds = conds
        self.events = events
        self.why = why

    def __repr__(self):
        return f'Outcome({self.kind}, {show(self.ret)}, conds={[(show(c), v) for c, v in self.conds]}, why={self.why})'


def show(t, depth=0):
    if t is None:
        return 'None'
    if not isinstance(t, tuple):
        return repr(t)
    if depth > 12:
        return '...'
    tag = t[0]
    if tag == 'param':
        return f'P{t[1]}'
    if tag == 'const':
        v = const_value(t)
        nm = f'[{t[3]}]' if len(t) > 3 and t[3] else ''
        return f'{v!r}:{t[1]}{nm}' if v is not None else f'const:{t[1]}{nm}'
    if tag == 'str':
        return json.dumps(t[1][:40])
    if tag == 'call':
        return f'{t[1]}(' + ', '.join(show(a, depth + 1) for a in t[2]) + ')'
    if tag == 'adt':
        return f'{t[1].split("::")[-1]}::{t[3]}(' + ', '.join(show(a, depth + 1) for a in t[4]) + ')'
    if tag == 'ref':
        return ('&mut ' if t[1] else '&') + show(t[2], depth + 1)
    if tag == 'deref':
        return '*' + show(t[1], depth + 1)
    if tag == 'field':
        return show(t[1], depth + 1) + f'.{t[2]}'
    if tag == 'downcast':
        return f'({show(t[1], depth + 1)} as {t[3]})'
    if tag == 'discr':
        return f'discr({show(t[1], depth + 1)})'
    if tag == 'bin':
        return f'{t[1]}({show(t[2], depth + 1)}, {show(t[3], depth + 1)})'
    if tag == 'un':
        return f'{t[1]}({show(t[2], depth + 1)})'
    if tag == 'cast':
        return f'({show(t[3], depth + 1)} as {t[2]})'
    if tag == 'tuple':
        return '(' + ', '.join(show(a, depth + 1) for a in t[1]) + ')'
    if tag == 'closure':
        return f'closure#{t[1]}@{t[2]}'
    if tag == 'fnitem':
        return f'fn:{t[1]}'
    return repr(t)


class Exec:
    def __init__(self, facts):
        self.facts = facts
        self.callees = {}
        self.npaths = 0
        self.no_inline = set()      # lids kept opaque (to read off the argument handed to them)

    # ---- callee registry
    def callee(self, d):
        k = d['full']
        c = self.callees.get(k)
        if c is None:
            c = Callee(d)
            self.callees[k] = c
        return c

    def is_generated_local(self, lid, span):
        """inline only bodies whose definition comes from macro-generated tokens"""
        if lid is None or lid in self.no_inline:
            return False
        f = self.facts.fns.get(lid)
        if f is None:
            return False
        return f['span'].startswith('!') and '__nutype_' in f['path']

    # ---- operands / places
    def local(self, st, fn, l):
        if l in st.env:
            return st.env[l]
        return ('uninit', l)

    def project(self, base, proj):
        if proj == '*':
            if base[0] == 'ref':
                return base[2]
            return ('deref', base)
        if 'f' in proj:
            i = proj['f']
            if base[0] in ('adt',):
                ops = base[4]
                if i < len(ops):
                    return ops[i]
            if base[0] == 'tuple':
                if i < len(base[1]):
                    return base[1][i]
            if base[0] == 'closure':
                if i < len(base[3]):
                    return base[3][i]
            return ('field', base, i)
        if 'd' in proj:
            v = proj['d']
            if base[0] == 'adt' and base[2] == v:
                return base
            return ('downcast', base, v, proj.get('n', ''))
        return ('proj', base, json.dumps(proj, sort_keys=True))

    def place(self, st, fn, p):
        t = self.local(st, fn, p['l'])
        for pr in p['p']:
            t = self.project(t, pr)
        return t

    def const(self, k):
        ty = self.facts.ty(k['ty'])
        if 'fn' in k:
            c = self.callee(k['fn'])
            return ('fnitem', c.key)
        if 'promoted' in k:
            return ('promoted', k['promoted'])
        if 'bits' in k:
            return ('const', ty['s'], int(k['bits'], 16), None)   # `K` and `5` are the same value: the name is dropped
        if 'str' in k:
            return ('str', k['str'])
        if 'bytes' in k:
            return ('bytes', k['bytes'])
        if 'static' in k:
            return ('static', k['static'], k.get('static_lid'))
        if k.get('zst'):
            return ('zst', ty['s'])
        if 'unev' in k:
            return ('const', ty['s'], None, k['unev'])
        return ('constraw', ty['s'], k.get('raw', ''))

    def operand(self, st, fn, o, body=None):
        if 'c' in o:
            return self.place(st, fn, o['c'])
        if 'm' in o:
            return self.place(st, fn, o['m'])
        if 'k' in o:
            t = self.const(o['k'])
            if t[0] == 'promoted':
                return self.eval_promoted(fn, t[1])
            return t
        return ('unknown', 'operand')

    def eval_promoted(self, fn, idx):
        try:
            body = fn['promoted'][idx]
        except (IndexError, KeyError):
            return ('unknown', 'promoted')
        outs = self.run_body(fn, body, {}, depth=MAX_DEPTH - 1)
        rets = [o for o in outs if o.kind == 'return']
        if len(rets) == 1:
            return rets[0].ret
        return ('unknown', 'promoted-multi')

    def operand_local(self, o):
        p = o.get('c') or o.get('m')
        if p is not None and not p['p']:
            return p['l']
        return None

    # ---- rvalues
    def rvalue(self, st, fn, rv, dest_local=None):
        r = rv['r']
        if r == 'use':
            o = rv['o']
            src = self.operand_local(o)
            if src is not None and dest_local is not None and src in st.ptr:
                st.ptr[dest_local] = st.ptr[src]
            return self.operand(st, fn, o)
        if r == 'ref':
            p = rv['p']
            if not rv['mut'] and p['p'] == ['*']:
                # `&*x` with x: &T is a copy of the shared reference x (MIR reborrows instead of copying)
                try:
                    lt = self.facts.ty(getattr(self, '_cur_body', {})['locals'][p['l']])
                    if lt.get('k') == 'ref' and not lt.get('mut'):
                        return self.local(st, fn, p['l'])
                except (KeyError, IndexError, TypeError):
                    pass
            v = self.place(st, fn, p)
            if rv['mut'] and dest_local is not None:
                root = p['l']
                if p['p'] and p['p'][0] == '*' and root in st.ptr:
                    st.ptr[dest_local] = st.ptr[root]
                elif not (p['p'] and p['p'][0] == '*'):
                    st.ptr[dest_local] = root
            return ('ref', bool(rv['mut']), v)
        if r == 'rawptr':
            st.events.append(('rawptr', rv['kind']))
            return ('rawptr', rv['kind'], self.place(st, fn, rv['p']))
        if r == 'cast':
            a = self.operand(st, fn, rv['o'])
            ty = self.facts.tys(rv['ty'])
            f = fold_cast(rv['kind'], ty, a)
            if f is not None:
                return f
            if rv['kind'] == 'Transmute':
                st.events.append(('transmute', ty))
            return ('cast', rv['kind'], ty, a, self.facts.tys(rv['from']) if 'from' in rv else None)
        if r == 'bin':
            a = self.operand(st, fn, rv['a'])
            b = self.operand(st, fn, rv['b'])
            f = fold_bin(rv['op'], a, b, None)
            if f is not None:
                return f
            return ('bin', rv['op'], a, b, self.facts.tys(rv['aty']))
        if r == 'un':
            a = self.operand(st, fn, rv['a'])
            f = fold_un(rv['op'], a)
            if f is not None:
                return f
            if rv['op'] == 'Not' and a[0] == 'un' and a[1] == 'Not':
                return a[2]
            return ('un', rv['op'], a)
        if r == 'discr':
            v = self.place(st, fn, rv['p'])
            return self.discr_of(v)
        if r == 'agg':
            ops = tuple(self.operand(st, fn, o) for o in rv['ops'])
            k = rv['kind']
            if k == 'adt':
                st.events.append(('construct', rv['adt'], rv['vname'], rv.get('lid')))
                return ('adt', norm_adt_path(rv['adt']), rv['variant'], rv['vname'], ops)
            if k == 'tuple':
                return ('tuple', ops)
            if k == 'array':
                return ('array', ops)
            if k == 'closure':
                return ('closure', rv['lid'], rv['span'], ops)
            return ('unknown', 'agg ' + rv.get('dbg', ''))
        return ('unknown', 'rvalue ' + rv.get('dbg', r))

    def discr_of(self, v):
        if v[0] == 'adt' and (v[1] in ('core::result::Result', 'core::option::Option', 'core::ops::ControlFlow')
                              or v[1] in self.facts.adt_by_path):
            return ('const', 'isize', v[2], None)
        return ('discr', v)

    # ---- running a body
    def paths(self, lid, args=None, depth=0):
        fn = self.facts.fns[lid]
        if args is None:
            args = {i: ('param', i) for i in range(1, fn['argc'] + 1)}
        return self.run_body(fn, fn, args, depth)

    def run_body(self, fn, body, args, depth):
        st = State()
        for l, t in args.items():
            st.env[l] = t
        outs = []
        self.npaths_local = 0
        self._run(fn, body, 0, st, outs, depth)
        return outs

    def _end(self, outs, kind, ret, st, why=None):
        outs.append(Outcome(kind, ret, list(st.conds), list(st.events), why))

    def _run(self, fn, body, bb, st, outs, depth):
        blocks = body['blocks']
        while True:
            if len(outs) > MAX_PATHS:
                return
            n = st.visits.get((id(body), bb), 0)
            if n >= 1:
                self._end(outs, 'loop', ('loop', bb), st, f'back edge to bb{bb}')
                return
            st.visits[(id(body), bb)] = n + 1
            blk = blocks[bb]
            if blk['cleanup']:
                self._end(outs, 'unknown', None, st, 'entered cleanup')
                return
            for s in blk['stmts']:
                if s['s'] == 'assign':
                    p = s['p']
                    dl = p['l'] if not p['p'] else None
                    self._cur_body = body
                    v = self.rvalue(st, fn, s['rv'], dl)
                    if dl is not None:
                        st.env[dl] = v
                        if s['rv']['r'] not in ('use', 'ref'):
                            st.ptr.pop(dl, None)
                    else:
                        st.events.append(('store', json.dumps(p['p'], sort_keys=True), v))
                        root = p['l']
                        tgt = st.ptr.get(root) if (p['p'] and p['p'][0] == '*') else root
                        if tgt is not None and p['p'] == ['*']:
                            st.env[tgt] = v
                        elif tgt is not None:
                            st.env[tgt] = ('stored', st.env.get(tgt, ('uninit', tgt)), json.dumps(p['p'], sort_keys=True), v)
                else:
                    st.events.append(('stmt', s.get('dbg', '')))
            t = blk['term']
            k = t['t']
            if k == 'goto':
                bb = t['bb']
                continue
            if k == 'ret':
                self._end(outs, 'return', self.local(st, fn, 0), st)
                return
            if k in ('unreachable',):
                self._end(outs, 'diverge', None, st, 'unreachable')
                return
            if k in ('resume', 'terminate'):
                self._end(outs, 'unknown', None, st, k)
                return
            if k == 'drop':
                bb = t['bb']
                continue
            if k == 'assert':
                c = self.operand(st, fn, t['cond'])
                cv = const_value(c) if c[0] == 'const' else None
                if cv is not None:
                    if bool(cv) == t['expected']:
                        bb = t['bb']
                        continue
                    st.events.append(('assert-fails', t['msg'], c, t['sp']))
                    self._end(outs, 'diverge', None, st, 'assert always fails: ' + t['msg'])
                    return
                st.events.append(('assert', t['msg'], c, t['sp'], t['expected']))
                bb = t['bb']
                continue
            if k == 'switch':
                c = self.operand(st, fn, t['o'])
                cv = None
                if c[0] == 'const' and c[2] is not None:
                    cv = c[2]
                elif c in st.known:
                    cv = st.known[c]
                vals = [(int(v), b) for v, b in t['vals']]
                if cv is not None and not isinstance(cv, tuple):
                    nxt = t['otherwise']
                    for v, b in vals:
                        if v == cv:
                            nxt = b
                    bb = nxt
                    continue
                excluded = cv[1] if isinstance(cv, tuple) else ()
                # symbolic: fork
                targets = [(v, b) for v, b in vals if v not in excluded]
                ow = t['otherwise']
                ow_reachable = not blocks[ow]['term']['t'] == 'unreachable' or blocks[ow]['stmts']
                branches = []
                for v, b in targets:
                    branches.append((v, b))
                if ow_reachable:
                    branches.append((('not', tuple(sorted(set(v for v, _ in vals) | set(excluded)))), ow))
                for i, (v, b) in enumerate(branches):
                    s2 = st.fork() if i < len(branches) - 1 else st
                    s2.conds.append((c, v))
                    s2.known[c] = v
                    self._run(fn, body, b, s2, outs, depth)
                return
            if k == 'call':
                res = self.do_call(st, fn, t, depth)
                # res: list of (state, value|None diverge)
                tgt = t['bb']
                dest = t['dest']
                live = []
                for (s2, v, why) in res:
                    if v is None or tgt is None:
                        self._end(outs, 'diverge', None, s2, why or 'call never returns')
                        continue
                    live.append((s2, v))
                for (s2, v) in live:
                    if not dest['p']:
                        s2.env[dest['l']] = v
                        s2.ptr.pop(dest['l'], None)
                    else:
                        s2.events.append(('store', json.dumps(dest['p'], sort_keys=True), v))
                    self._run(fn, body, tgt, s2, outs, depth)
                return
            self._end(outs, 'unknown', None, st, 'terminator ' + k + ' ' + t.get('dbg', ''))
            return

    # ---- calls
    def split_result(self, st, x, kinds=('Ok', 'Err')):
        """case-split an opaque Result/Option-valued term; returns [(state, variant name, payload)]"""
        if x[0] == 'adt' and x[3] in ('Ok', 'Err', 'Some', 'None'):
            return [(st, x[3], x[4][0] if x[4] else None)]
        # a by-reference method (`is_ok(&r)`) on a value that is a known variant: nothing to split
        y = x
        while y[0] == 'ref':
            y = y[2]
        if y is not x and y[0] == 'adt' and y[3] in ('Ok', 'Err', 'Some', 'None'):
            return [(st, y[3], ('ref', False, y[4][0]) if y[4] else None)]
        d = ('discr', x)
        out = []
        idx = {'Ok': 0, 'Err': 1, 'None': 0, 'Some': 1}
        known = st.known.get(d)
        for i, kname in enumerate(kinds):
            if known is not None and not isinstance(known, tuple) and known != idx[kname]:
                continue
            s2 = st.fork()
            if known is None:
                s2.conds.append((d, idx[kname]))
                s2.known[d] = idx[kname]
            payload = ('field', ('downcast', x, idx[kname], kname), 0) if kname != 'None' else None
            out.append((s2, kname, payload))
        return out

    def apply_fn(self, st, fn, f, args, depth, site):
        """apply a function-valued term to argument terms. returns [(state, value|None, why)]"""
        if f[0] == 'fnitem':
            c = self.callees[f[1]]
            return self.call_callee(st, fn, c, args, depth, site)
        if f[0] == 'closure':
            lid = f[1]
            if self.is_generated_local(lid, f[2]) and depth < MAX_DEPTH:
                return self.inline(st, lid, [f] + list(args), depth)
            return [(st, ('call', f'closure@{f[2]}', tuple(args), None), None)]
        if f[0] == 'ref':
            return self.apply_fn(st, fn, f[2], args, depth, site)
        return [(st, ('call', 'apply', (f,) + tuple(args), None), None)]

    def inline(self, st, lid, args, depth):
        callee_fn = self.facts.fns[lid]
        sub = State()
        sub.conds = st.conds
        sub.events = st.events
        sub.known = st.known
        # fresh env for the callee; share conds/events/known through fork
        sub = st.fork()
        saved_env, saved_ptr, saved_vis = sub.env, sub.ptr, sub.visits
        sub.env = {i + 1: a for i, a in enumerate(args)}
        sub.ptr = {}
        sub.visits = {}
        outs = []
        self._run(callee_fn, callee_fn, 0, sub, outs, depth + 1)
        res = []
        for o in outs:
            s2 = State()
            s2.env = dict(saved_env)
            s2.ptr = dict(saved_ptr)
            s2.visits = dict(saved_vis)
            s2.conds = list(o.conds)
            s2.events = list(o.events)
            s2.known = {c: v for c, v in o.conds}
            for kk, vv in st.known.items():
                s2.known.setdefault(kk, vv)
            if o.kind == 'return':
                res.append((s2, o.ret, None))
            elif o.kind == 'diverge':
                res.append((s2, None, o.why or 'diverges'))
            else:
                s2.events.append(('inline-' + o.kind, callee_fn['path'], o.why))
                res.append((s2, ('unknown', f'inline {o.kind}: {o.why}'), None))
        return res

    def do_call(self, st, fn, t, depth):
        f = t['f']
        args = [self.operand(st, fn, a) for a in t['args']]
        site = t['sp']
        # mutable references passed to the callee: havoc what they point to
        mut_targets = []
        for a in t['args']:
            l = self.operand_local(a)
            if l is not None and l in st.ptr:
                mut_targets.append(st.ptr[l])
        if 'fn' in f:
            c = self.callee(f['fn'])
            res = self.call_callee(st, fn, c, args, depth, site)
        elif 'indirect' in f:
            fv = self.operand(st, fn, f['indirect'])
            res = self.apply_fn(st, fn, fv, args, depth, site)
        else:
            res = [(st, ('unknown', 'callee'), None)]
        if mut_targets:
            out = []
            for (s2, v, why) in res:
                for mt in mut_targets:
                    s2.env[mt] = ('havoc', s2.env.get(mt, ('uninit', mt)), site, show(v) if v else '')
                out.append((s2, v, why))
            res = out
        return res

    def call_callee(self, st, fn, c, args, depth, site):
        # constructors used as functions
        if c.ctor:
            st.events.append(('construct', c.ctor['adt'], c.ctor['vname'], c.ctor.get('lid')))
            return [(st, ('adt', norm_adt_path(c.ctor['adt']), c.ctor['vidx'], c.ctor['vname'], tuple(args)), None)]
        p = c.path
        rp = c.best_path()
        # ---- closed list of std combinators
        if c.trait in ('core::ops::Try', 'core::ops::try_trait::Try', 'std::ops::Try') and c.name == 'branch':
            out = []
            x = args[0]
            tys = c.full
            # the *outermost* type constructor of Self decides (Result<Option<T>, E> is a Result)
            if tys.split(' as ')[0].lstrip('<').split('<')[0].endswith('Option'):
                for (s2, kn, pl) in self.split_result(st, x, ('None', 'Some')):
                    if kn == 'Some':
                        out.append((s2, ('adt', 'core::ops::ControlFlow', 0, 'Continue', (pl,)), None))
                    else:
                        out.append((s2, ('adt', 'core::ops::ControlFlow', 1, 'Break', (MK_NONE,)), None))
                return out
            for (s2, kn, pl) in self.split_result(st, x):
                if kn == 'Ok':
                    out.append((s2, ('adt', 'core::ops::ControlFlow', 0, 'Continue', (pl,)), None))
                else:
                    out.append((s2, ('adt', 'core::ops::ControlFlow', 1, 'Break', (mk_err(pl),)), None))
            return out
        if c.name == 'from_residual' and c.trait and c.trait.endswith('FromResidual'):
            x = args[0]
            if x[0] == 'adt' and x[3] == 'Err':
                e = x[4][0]
                # From::from on the error: identity when the blanket impl `From<T> for T` is selected
                return [(st, mk_err(('call', 'From::from?', (e,), None) if not self._residual_identity(c) else e), None)]
            if x == MK_NONE:
                return [(st, MK_NONE, None)]
            return [(st, ('call', c.key, tuple(args), None), None)]
        if rp in ('core::convert::<impl core::convert::From<T> for T>::from', 'std::convert::<impl std::convert::From<T> for T>::from'):
            return [(st, args[0], None)]
        if rp in ('core::convert::<impl core::convert::Into<U> for T>::into', 'std::convert::<impl std::convert::Into<U> for T>::into'):
            # Into::into == From::from(x); identity when U == T
            g = c.gargs
            if len(g) >= 2 and g[0] == g[1]:
                return [(st, args[0], None)]
            return [(st, ('call', c.key, tuple(args), None), None)]
        base = rp.replace('std::', 'core::', 1) if rp.startswith('std::result') or rp.startswith('std::option') else rp
        if base.startswith('core::result::Result::<T, E>::') or base.startswith('core::option::Option::<T>::'):
            m = base.rsplit('::', 1)[1]
            is_opt = base.startswith('core::option')
            kinds = ('None', 'Some') if is_opt else ('Ok', 'Err')
            good = 'Some' if is_opt else 'Ok'
            wrap_good = mk_some if is_opt else mk_ok
            if m in ('map_err', 'map', 'and_then', 'unwrap_or_else', 'expect', 'unwrap', 'ok', 'ok_or', 'ok_or_else', 'is_ok', 'is_err', 'is_some', 'is_none', 'unwrap_or', 'err', 'or_else'):
                out = []
                for (s2, kn, pl) in self.split_result(st, args[0], kinds):
                    isgood = kn == good
                    if m == 'map_err':
                        if isgood:
                            out.append((s2, mk_ok(pl), None))
                        else:
                            for (s3, v, why) in self.apply_fn(s2, fn, args[1], [pl], depth, site):
                                out.append((s3, mk_err(v) if v is not None else None, why))
                    elif m == 'map':
                        if isgood:
                            for (s3, v, why) in self.apply_fn(s2, fn, args[1], [pl], depth, site):
                                out.append((s3, wrap_good(v) if v is not None else None, why))
                        else:
                            out.append((s2, MK_NONE if is_opt else mk_err(pl), None))
                    elif m == 'and_then':
                        if isgood:
                            out += self.apply_fn(s2, fn, args[1], [pl], depth, site)
                        else:
                            out.append((s2, MK_NONE if is_opt else mk_err(pl), None))
                    elif m == 'or_else':
                        if isgood:
                            out.append((s2, wrap_good(pl), None))
                        else:
                            out += self.apply_fn(s2, fn, args[1], [] if is_opt else [pl], depth, site)
                    elif m == 'unwrap_or_else':
                        if isgood:
                            out.append((s2, pl, None))
                        else:
                            out += self.apply_fn(s2, fn, args[1], [] if is_opt else [pl], depth, site)
                    elif m == 'unwrap_or':
                        out.append((s2, pl if isgood else args[1], None))
                    elif m in ('expect', 'unwrap'):
                        if isgood:
                            out.append((s2, pl, None))
                        else:
                            s2.events.append(('panic', base, site))
                            out.append((s2, None, f'{m} on {kn}'))
                    elif m == 'ok':
                        out.append((s2, mk_some(pl) if isgood else MK_NONE, None))
                    elif m == 'err':
                        out.append((s2, MK_NONE if isgood else mk_some(pl), None))
                    elif m == 'ok_or':
                        out.append((s2, mk_ok(pl) if isgood else mk_err(args[1]), None))
                    elif m == 'ok_or_else':
                        if isgood:
                            out.append((s2, mk_ok(pl), None))
                        else:
                            for (s3, v, why) in self.apply_fn(s2, fn, args[1], [], depth, site):
                                out.append((s3, mk_err(v) if v is not None else None, why))
                    elif m in ('is_ok', 'is_some'):
                        out.append((s2, mk_const('bool', isgood), None))
                    elif m in ('is_err', 'is_none'):
                        out.append((s2, mk_const('bool', not isgood), None))
                return out
        # Fn*/call on closures and fn items
        if c.trait in ('core::ops::Fn', 'core::ops::FnMut', 'core::ops::FnOnce', 'core::ops::function::Fn',
                       'core::ops::function::FnMut', 'core::ops::function::FnOnce', 'std::ops::Fn', 'std::ops::FnMut', 'std::ops::FnOnce'):
            fv = args[0]
            tup = args[1] if len(args) > 1 else ('tuple', ())
            while fv[0] == 'ref':
                fv = fv[2]
            if tup[0] == 'tuple':
                if fv[0] in ('closure', 'fnitem'):
                    return self.apply_fn(st, fn, fv, list(tup[1]), depth, site)
            tl = c.target_lid()
            if tl is not None and tup[0] == 'tuple':
                if self.is_generated_local(tl, None) and depth < MAX_DEPTH:
                    return self.inline(st, tl, [args[0]] + list(tup[1]), depth)
                sp = c.target_span()
                # an opaque user closure is invoked *here*: remember how many branch decisions precede the call
                st.events.append(('usercall', f'closure@{sp}', len(st.conds)))
                return [(st, ('call', f'closure@{sp}', tuple(tup[1]), None), None)]
            return [(st, ('call', c.key, tuple(args), None), None)]
        # generated local callee: inline
        tl = c.target_lid()
        if tl is not None and self.is_generated_local(tl, None) and depth < MAX_DEPTH:
            if not c.safe:
                st.events.append(('unsafe-call', c.key))
            return self.inline(st, tl, args, depth)
        if not c.safe:
            st.events.append(('unsafe-call', c.key))
        folded = self.fold_call(c, args)
        if folded is not None:
            return [(st, folded, None)]
        if c.lid is not None:
            # an opaque function of the user's crate is invoked *here*
            st.events.append(('usercall', c.key, len(st.conds)))
        return [(st, ('call', c.key, tuple(args), None), None)]

    def fold_call(self, c, args):
        """constant folding of a few pure std functions on constant arguments (floats; ASCII strings only)"""
        p = c.res_path or c.path

        def peel(t):
            while t[0] in ('ref', 'deref'):
                t = t[2] if t[0] == 'ref' else t[1]
            return t
        if len(args) == 2 and c.name in ('max', 'min') and re.search(r'(^|::)cmp::(Ord::)?(max|min)(::<[^>]*>)?$', p):
            a, b = peel(args[0]), peel(args[1])
            if a[0] == 'const' and b[0] == 'const' and a[1] == b[1] and a[1] in INT_TYPES and a[2] is not None and b[2] is not None:
                va, vb = const_value(a), const_value(b)
                return mk_const(a[1], max(va, vb) if c.name == 'max' else min(va, vb))
        if len(args) == 1:
            a = peel(args[0])
            # `(lo..hi).is_empty()` / `(lo..=hi).is_empty()` on constant integer end points
            if c.name == 'is_empty' and re.search(r'ops::(range::)?Range(Inclusive)?(::<[^>]*>)?::is_empty$', p):
                ends = None
                if a[0] == 'adt' and re.search(r'ops::(range::)?Range$', a[1]) and len(a[4]) == 2:
                    ends, incl = a[4], False
                elif a[0] == 'call' and len(a[2]) == 2 and self.callees.get(a[1]) is not None \
                        and re.search(r'RangeInclusive(::<[^>]*>)?::new$', self.callees[a[1]].res_path or self.callees[a[1]].path):
                    ends, incl = a[2], True
                if ends and all(e[0] == 'const' and e[1] in INT_TYPES and e[2] is not None for e in ends):
                    lo, hi = const_value(ends[0]), const_value(ends[1])
                    return mk_const('bool', not (lo <= hi if incl else lo < hi))
            if a[0] == 'const' and is_float(a[1]) and a[2] is not None:
                v = const_value(a)
                if p.endswith('>::is_finite'):
                    return mk_const('bool', not (math.isinf(v) or v != v))
                if p.endswith('>::is_nan'):
                    return mk_const('bool', v != v)
                if p.endswith('>::is_infinite'):
                    return mk_const('bool', math.isinf(v))
                if p.endswith('>::abs'):
                    return mk_const(a[1], abs(v))
            if a[0] == 'str' and a[1].isascii():
                x = a[1]
                if p.endswith('str::<impl str>::is_empty') or p.endswith('string::String::is_empty'):
                    return mk_const('bool', x == '')
                if p.endswith('str::<impl str>::trim'):
                    return ('str', x.strip(' \t\n\r\x0b\x0c'))
                if p.endswith('str::<impl str>::to_lowercase'):
                    return ('str', x.lower())
                if p.endswith('str::<impl str>::to_uppercase'):
                    return ('str', x.upper())
                if p.endswith('str::<impl str>::len') or p.endswith('string::String::len'):
                    return mk_const('usize', len(x))
                if c.trait and c.trait.split('::')[-1] in ('ToString', 'ToOwned', 'Into', 'From', 'Deref') and c.name in ('to_string', 'to_owned', 'into', 'from', 'deref'):
                    if 'str' in c.full or 'String' in c.full:
                        return ('str', x)
                if p.endswith('str::<impl str>::chars'):
                    return ('strchars', x)
            if a[0] == 'strchars' and c.name == 'count':
                return mk_const('usize', len(a[1]))
        return None

    def _residual_identity(self, c):
        # `impl FromResidual<Result<Infallible, E>> for Result<T, F> where F: From<E>`; identity iff E == F.
        # gargs of from_residual: [Self, R]; compare error type args textually
        try:
            g = c.gargs
            self_ty = self.facts.ty(g[0])
            r_ty = self.facts.ty(g[1])
            return self_ty['args'][1] == r_ty['args'][1]
        except Exception:
            return False
