"""nuwit: compile-verdict witnesses. Each witness is a small crate root compiled by the *stable*
rustc against the freshly built nutype (per feature configuration); the verdict (accept /
reject with error code and message) is compared with the expectation. Nothing is executed."""
import concurrent.futures
import glob
import json
import os
import re
import shutil
import subprocess
import time

from . import build

CONFIGS = {
    # name: (default-features, features, extra deps)
    'full': (True, ['serde', 'arbitrary', 'new_unchecked', 'regex'], True),
    'bare': (True, [], True),
    'nostd': (False, ['serde', 'arbitrary'], False),
    # nothing in the crate graph links std (the `arbitrary` crate does): std-only inherent methods of primitives do not resolve
    'nostd0': (False, [], None),
    # exactly one optional feature on: a gate that tests the wrong feature shows here
    'sch': (True, ['schemars08'], 'schemars'),
}


def _libdir(tier_dir, cfg):
    return os.path.join(tier_dir, 'wit-' + cfg)


def build_libs(cfg):
    """cargo build (stable) of a crate depending on nutype with the config's features; copies the
    deps directory into the cache. Returns (deps_dir, externs dict)"""
    cd = build.cache_dir('witlibs')
    ld = _libdir(cd, cfg)
    with build.Lock(os.path.join(cd, f'.lock-{cfg}')):
        if not os.path.exists(os.path.join(ld, 'ok')):
            t0 = time.time()
            sc = build.scratch()
            ws = os.path.join(sc, 'wit-' + cfg)
            os.makedirs(os.path.join(ws, 'src'), exist_ok=True)
            df, feats, extra = CONFIGS[cfg]
            r = build.repo()
            fs = ', '.join(f'"{f}"' for f in feats)
            deps = f'nutype = {{ path = "{r}/nutype", default-features = {"true" if df else "false"}, features = [{fs}] }}\n'
            if extra is None:
                pass
            elif extra == 'schemars':
                deps += 'schemars = "0.8"\n'
            elif extra:
                deps += 'serde = "1"\nserde_json = "1"\narbitrary = "1"\nregex = "1"\n'
            else:
                deps += 'serde = { version = "1", default-features = false, features = ["alloc"] }\narbitrary = "1"\n'
            with open(os.path.join(ws, 'Cargo.toml'), 'w') as f:
                f.write(f'[package]\nname = "witbase"\nversion = "0.0.0"\nedition = "2021"\n\n[dependencies]\n{deps}\n[workspace]\n')
            with open(os.path.join(ws, 'src', 'lib.rs'), 'w') as f:
                f.write('#![no_std]\n' if not df else '')
            shutil.copy(os.path.join(r, 'Cargo.lock'), os.path.join(ws, 'Cargo.lock'))
            env = build.cargo_env({'CARGO_TARGET_DIR': os.path.join(sc, 'wit-target-' + cfg)})
            p = build.run(['cargo', 'build', '--offline', '-j', '16'], ws, env, f'witness libs [{cfg}]')
            if p.returncode != 0:
                raise RuntimeError('cannot build witness libraries: ' + p.stdout[-3000:])
            src = os.path.join(sc, 'wit-target-' + cfg, 'debug', 'deps')
            if os.path.isdir(ld):
                shutil.rmtree(ld)
            os.makedirs(ld)
            for fn in os.listdir(src):
                if fn.endswith(('.rlib', '.so', '.rmeta')):
                    shutil.copy(os.path.join(src, fn), os.path.join(ld, fn))
            shutil.rmtree(os.path.join(sc, 'wit-target-' + cfg), ignore_errors=True)
            with open(os.path.join(ld, 'ok'), 'w') as f:
                f.write(str(round(time.time() - t0, 1)))
    ext = {}
    for name in ('nutype', 'serde', 'serde_json', 'arbitrary', 'regex', 'schemars'):
        c = sorted(glob.glob(os.path.join(ld, f'lib{name}-*.rlib')))
        if c:
            ext[name] = c[0]
    return ld, ext


def compile_one(args):
    wid, cfg, src, ld, ext, workdir = args
    p = os.path.join(workdir, wid + '.rs')
    with open(p, 'w') as f:
        f.write(src)
    cmd = ['rustc', '--edition', '2021', '--crate-type', 'lib', '--crate-name', 'w', '--emit=metadata',
           '-o', os.path.join(workdir, wid + '.rmeta'), '--error-format=json', '-A', 'warnings', '-L', 'dependency=' + ld]
    for k, v in ext.items():
        cmd += ['--extern', f'{k}={v}']
    cmd.append(p)
    r = subprocess.run(cmd, stdout=subprocess.PIPE, stderr=subprocess.PIPE, text=True)
    errs = []
    for line in r.stderr.split('\n'):
        if not line.startswith('{'):
            continue
        try:
            m = json.loads(line)
        except ValueError:
            continue
        if m.get('level') != 'error':
            continue
        sp = [s for s in m.get('spans', []) if s.get('is_primary')] or m.get('spans', [])
        line_no = None
        if sp:
            cur = sp[0]
            while cur.get('expansion') and cur['expansion'].get('span'):
                cur = cur['expansion']['span']
            line_no = cur.get('line_start')
        errs.append({'code': (m.get('code') or {}).get('code'), 'msg': m.get('message', ''), 'line': line_no})
    try:
        os.unlink(os.path.join(workdir, wid + '.rmeta'))
    except OSError:
        pass
    return wid, {'ok': r.returncode == 0, 'errors': errs}


def run_witnesses(ws):
    """verdicts with a per-tree cache keyed by (cfg, source)"""
    import hashlib
    cd = build.cache_dir('witres')
    out = {}
    todo = []
    for w in ws:
        h = hashlib.sha256((w['cfg'] + '\0' + w['src']).encode()).hexdigest()[:32]
        p = os.path.join(cd, h + '.json')
        w['_cache'] = p
        if os.path.exists(p):
            try:
                out[w['id']] = json.load(open(p))
                continue
            except ValueError:
                pass
        todo.append(w)
    if todo:
        res = _run_witnesses(todo)
        for w in todo:
            out[w['id']] = res[w['id']]
            with open(w['_cache'], 'w') as f:
                json.dump(res[w['id']], f)
    return out


def _run_witnesses(ws):
    """ws: list of dicts {id, cfg, src}; returns {id: verdict}"""
    libs = {}
    for cfg in sorted({w['cfg'] for w in ws}):
        libs[cfg] = build_libs(cfg)
    workdir = os.path.join(build.scratch(), 'witwork')
    os.makedirs(workdir, exist_ok=True)
    jobs = [(w['id'], w['cfg'], w['src'], libs[w['cfg']][0], libs[w['cfg']][1], workdir) for w in ws]
    out = {}
    with concurrent.futures.ThreadPoolExecutor(max_workers=16) as ex:
        for wid, v in ex.map(compile_one, jobs):
            out[wid] = v
    return out


def verdict_matches(v, expect):
    """expect: 'pass' | {'fail': [codes] or None, 'msg': regex or None}. Returns (bool, explanation)"""
    if expect == 'pass':
        if v['ok']:
            return True, 'compiles'
        return False, 'expected to compile; errors: ' + '; '.join(f"{e['code']}: {e['msg'][:160]}" for e in v['errors'][:3])
    if v['ok']:
        return False, 'expected a compile error, but it compiles'
    codes = expect.get('fail')
    rx = expect.get('msg')
    for e in v['errors']:
        if codes and e['code'] not in codes:
            continue
        if rx and not re.search(rx, e['msg'], re.S):
            continue
        return True, f"rejected: {e['code']}: {e['msg'][:120]}"
    return False, 'rejected, but not for the expected reason: ' + '; '.join(f"{e['code']}: {e['msg'][:160]}" for e in v['errors'][:3])
