"""nucorpus: the declaration grid and the reference model's (Sigma) view of it.

Every declaration is a plain dict (see `decl()`), rendered to Rust source by
`render()`.  Nothing here reads the generator: what a declaration *means* is
fixed by README/GLOSSARY (see DESIGN.md section 3) and recorded next to the
spelling (`value` of a bound = what the spelling denotes).
"""
import copy
import re
import itertools
import struct
import random

INT_TYPES_ALL = ['u8', 'u16', 'u32', 'u64', 'u128', 'usize', 'i8', 'i16', 'i32', 'i64', 'i128', 'isize']
INT_TYPES_QUICK = ['u8', 'i8', 'i32', 'u64', 'i128', 'usize']
FLOAT_TYPES = ['f32', 'f64']

K = 5          # value of every K_<T> constant in the support prelude
LIM = 7        # value returned by every lim_<t>() function
KF = 2.5       # value of KF_<T>
LIMF = 7.5     # value returned by limf_<t>()
MINLEN = 3
MAXLEN = 10


def int_bits(t):
    if t in ('usize', 'isize'):
        return 64
    return int(t[1:])


def int_signed(t):
    return t[0] == 'i'


def int_min(t):
    return -(1 << (int_bits(t) - 1)) if int_signed(t) else 0


def int_max(t):
    return (1 << (int_bits(t) - 1)) - 1 if int_signed(t) else (1 << int_bits(t)) - 1


def f32_bits(x):
    return struct.unpack('<I', struct.pack('<f', x))[0]


def f64_bits(x):
    return struct.unpack('<Q', struct.pack('<d', x))[0]


def fbits(t, x):
    return f32_bits(x) if t == 'f32' else f64_bits(x)


def f32_round(x):
    return struct.unpack('<f', struct.pack('<f', x))[0]


def f32_from_decimal(text):
    """the f32 nearest to the *decimal* written (one rounding, ties to even) - what rustc and str::parse::<f32> produce.
    Going through a Python float first rounds twice and is wrong for decimals just off an f32 midpoint."""
    from fractions import Fraction
    x = Fraction(text.replace('_', ''))
    approx = f32_round(float(x))
    bits = struct.unpack('<I', struct.pack('<f', approx))[0]
    cands = []
    for b in (bits - 1, bits, bits + 1):
        if 0 <= (b & 0x7fffffff) < 0x7f800000:
            v = struct.unpack('<f', struct.pack('<I', b & 0xffffffff))[0]
            cands.append((abs(Fraction(v) - x), b & 1, v))
    cands.sort(key=lambda c: (c[0], c[1]))
    return cands[0][2]


# --------------------------------------------------------------------------
# bound spellings: (text, value, form)   form: 'lit' | 'expr' | 'call'
# --------------------------------------------------------------------------

def int_spellings(t, tier):
    """All spellings of integer bounds for type t with the value each denotes."""
    U = t.upper()
    sp = [
        ('10', 10, 'lit'),
        ('0', 0, 'lit'),
        (f'{t}::MAX', int_max(t), 'expr'),
        (f'{t}::MIN', int_min(t), 'expr'),
        (f'K_{U}', K, 'expr'),
        (f'(K_{U} + 1)', K + 1, 'expr'),
        (f'K_{U} << 2', K << 2, 'expr'),
        (f'K_{U} * 2', K * 2, 'expr'),
        (f'lim_{t}()', LIM, 'call'),
        # literals the macro cannot read with str::parse: they travel as expressions
        ('0x10', 16, 'expr'),
        ('0b101', 5, 'expr'),
        (f'10{t}', 10, 'expr'),
    ]
    # a unary operator other than minus in front of a literal: `!7` is -8 for signed types, MAX - 7 for unsigned ones
    sp.append(('!7', (-8 if int_signed(t) else int_max(t) - 7), 'expr'))
    if int_bits(t) >= 16:
        sp.append(('1_000', 1000, 'lit'))
    if int_bits(t) >= 64:
        # expressions made of unsuffixed literals only: their type (hence their value) comes from the inner type by
        # inference - evaluated as i32 they would wrap or fail to compile
        sp.append(('(1 << 31)', 1 << 31, 'expr'))
        sp.append(('(2_000_000_000 + 2_000_000_000)', 4_000_000_000, 'expr'))
    if int_signed(t):
        sp += [('-3', -3, 'lit'), (f'-K_{U}', -K, 'expr'), (f'-(K_{U} + 1)', -(K + 1), 'expr')]
    if tier == 'thorough':
        sp += [
            (f'K_{U} | 1', K | 1, 'expr'),
            (f'K_{U} as {t}', K, 'expr'),
            (f'((K_{U}))', K, 'expr'),
            (f'{{ K_{U} }}', K, 'expr'),
            (f'K_{U} + K_{U} * 2', K + K * 2, 'expr'),
            (f'K_{U} - 2', K - 2, 'expr'),
            (f'K_{U} & 6', K & 6, 'expr'),
            (f'K_{U} ^ 1', K ^ 1, 'expr'),
            (f'K_{U} >> 1', K >> 1, 'expr'),
            (f'K_{U} / 2', K // 2, 'expr'),
            (f'K_{U} % 3', K % 3, 'expr'),
            (f'{t}::MAX - 1', int_max(t) - 1, 'expr'),
            (f'{t}::MIN + 1', int_min(t) + 1, 'expr'),
            ('0o17', 15, 'expr'),
            ('0x1F', 31, 'expr'),
            (f'0x10{t}', 16, 'expr'),
            ('1_0', 10, 'lit'),
        ]
    return sp


def float_spellings(t, tier):
    U = t.upper()
    r = f32_round if t == 'f32' else (lambda x: x)
    sp = [
        ('1.5', 1.5, 'lit'),
        ('-2.25', -2.25, 'lit'),
        ('0', 0.0, 'lit'),
        ('10', 10.0, 'lit'),
        ('1e3', 1000.0, 'lit'),
        ('-0.0', -0.0, 'lit'),
        ('0.1', r(0.1), 'lit'),
        (f'{t}::INFINITY', float('inf'), 'expr'),
        (f'{t}::NEG_INFINITY', float('-inf'), 'expr'),
        (f'{t}::MAX', 3.4028234663852886e38 if t == 'f32' else 1.7976931348623157e308, 'expr'),
        (f'{t}::MIN_POSITIVE', 1.1754943508222875e-38 if t == 'f32' else 2.2250738585072014e-308, 'expr'),
        ('1e-40' if t == 'f32' else '1e-310', r(1e-40) if t == 'f32' else 1e-310, 'lit'),
        (f'KF_{U}', KF, 'expr'),
        (f'-KF_{U}', -KF, 'expr'),
        (f'(KF_{U} + 1.0)', KF + 1.0, 'expr'),
        (f'KF_{U} * 2.0', KF * 2.0, 'expr'),
        (f'limf_{t}()', LIMF, 'call'),
        (f'1.5{t}', 1.5, 'expr'),
        (f'-2{t}', -2.0, 'expr'),
    ]
    if tier == 'thorough':
        sp += [
            (f'KF_{U} - 0.5', KF - 0.5, 'expr'),
            (f'KF_{U} / 2.0', KF / 2.0, 'expr'),
            (f'((KF_{U}))', KF, 'expr'),
            (f'-(KF_{U} + 1.0)', -(KF + 1.0), 'expr'),
            ('123_456.5', 123456.5, 'lit'),
            ('1E2', 100.0, 'lit'),
            ('-1e-3', r(-1e-3), 'lit'),
        ]
    return sp


def len_spellings(tier):
    sp = [('3', 3, 'lit'), ('MINLEN', MINLEN, 'expr'), ('MINLEN + 1', MINLEN + 1, 'expr'), ('len_lim()', LIM, 'call'),
          # top-level operators that bind weaker than the `+ 16` / `+ 1` a template may append
          ('MAXLEN >> 1', MAXLEN >> 1, 'expr'), ('MINLEN | 4', MINLEN | 4, 'expr'), ('MINLEN << 1', MINLEN << 1, 'expr'), ('MAXLEN & 14', MAXLEN & 14, 'expr')]
    if tier == 'thorough':
        sp += [('1_0', 10, 'lit'), ('MAXLEN - 1', MAXLEN - 1, 'expr'), ('(MINLEN * 2)', MINLEN * 2, 'expr'), ('MINLEN ^ 1', MINLEN ^ 1, 'expr')]
    return sp


# --------------------------------------------------------------------------
# declaration record
# --------------------------------------------------------------------------

_counter = [0]


def decl(family, inner, sanitizers=(), validators=(), derives=(), default=None, custom=None,
         const_fn=False, new_unchecked=False, generics='', vis='pub', layout=None, tags=(),
         extra_blocks=None, expect='accept', note='', split=None):
    _counter[0] += 1
    return {
        'name': None, 'family': family, 'inner': inner, 'generics': generics,
        'sanitizers': copy.deepcopy(list(sanitizers)), 'validators': copy.deepcopy(list(validators)),
        'custom': copy.deepcopy(custom),
        'derives': list(derives), 'default': default, 'const_fn': const_fn,
        'new_unchecked': new_unchecked, 'vis': vis, 'layout': layout, 'tags': list(tags),
        'extra_blocks': extra_blocks, 'expect': expect, 'note': note, 'split': split,
    }


def V(kind, text=None, value=None, form=None, **kw):
    d = {'kind': kind}
    if text is not None:
        d['text'] = text
    if value is not None:
        d['value'] = value
    if form is not None:
        d['form'] = form
    d.update(kw)
    return d


def S(kind, text=None, form=None, **kw):
    d = {'kind': kind}
    if text is not None:
        d['text'] = text
    if form is not None:
        d['form'] = form
    d.update(kw)
    return d


def render_attr(d, line0=0):
    """Renders the attribute; records in every closure-valued item its (line, col) (1-based,
    relative to line0 = line of `#[nutype(`) so that MIR closure spans can be matched to it."""
    blocks = {}
    trailing = ',' if d.get('layout') and d['layout'].get('trailing') else ''

    def build(head, items):
        # items: list of (text, record or None); returns (string, [(record, col)])
        s = head + '('
        marks = []
        for i, (text, rec, off) in enumerate(items):
            if i:
                s += ', '
            if rec is not None:
                marks.append((rec, len(s) + off))
            s += text
        return s + trailing + ')', marks

    if d['sanitizers']:
        items = []
        for sn in d['sanitizers']:
            if sn['kind'] != 'with':
                items.append((sn['kind'], None, 0))
            else:
                items.append((f"with = {sn['text']}", sn, len('with = ')))
        blocks['sanitize'] = build('sanitize', items)
        k = (d.get('split') or {}).get('sanitize')
        if k:
            blocks['sanitize'] = build('sanitize', items[:k])
            blocks['sanitize#2'] = build('sanitize', items[k:])
    if d['validators'] or d['custom']:
        items = []
        for v in d['validators']:
            if v['kind'] in ('not_empty', 'finite'):
                items.append((v['kind'], None, 0))
            else:
                items.append((f"{v['kind']} = {v['text']}", v, len(v['kind']) + 3))
        if d['custom']:
            c = d['custom']
            pair = [(f"with = {c['with_text']}", c, len('with = ')), (f"error = {c['error']}", None, 0)]
            if c.get('error_first'):
                pair.reverse()
            items += pair
        blocks['validate'] = build('validate', items)
        k = (d.get('split') or {}).get('validate')
        if k:
            blocks['validate'] = build('validate', items[:k])
            blocks['validate#2'] = build('validate', items[k:])
    if d['derives']:
        blocks['derive'] = build('derive', [(x, None, 0) for x in d['derives']])
        k = (d.get('split') or {}).get('derive')
        if k:
            blocks['derive'] = build('derive', [(x, None, 0) for x in d['derives'][:k]])
            blocks['derive#2'] = build('derive', [(x, None, 0) for x in d['derives'][k:]])
    if d['default'] is not None:
        blocks['default'] = (f"default = {d['default']['text']}", [])
    if d['const_fn']:
        blocks['const_fn'] = ('const_fn', [])
    if d['new_unchecked']:
        blocks['new_unchecked'] = ('new_unchecked', [])
    order = ['sanitize', 'validate', 'derive', 'default', 'const_fn', 'new_unchecked']
    if d.get('layout') and d['layout'].get('order'):
        order = d['layout']['order']
    parts = [blocks[k] for k in order if k in blocks]
    second = [blocks[k + '#2'] for k in order if (k + '#2') in blocks]
    if (d.get('split') or {}).get('adjacent'):
        # the repeated block directly after the first one
        parts = []
        for k in order:
            if k in blocks:
                parts.append(blocks[k])
                if (k + '#2') in blocks:
                    parts.append(blocks[k + '#2'])
    else:
        parts += second
    if d.get('extra_blocks'):
        # raw extra blocks (repeated validate(..) etc.), positioned by index
        for pos, text in d['extra_blocks']:
            parts.insert(pos if pos >= 0 else len(parts), (text, []))
    trail = ',' if d.get('layout') and d['layout'].get('trailing_outer') else ''
    lines = ['#[nutype(']
    for i, (text, marks) in enumerate(parts):
        ln = line0 + len(lines)
        for rec, col in marks:
            rec['pos'] = (ln, 4 + col + 1)
        lines.append('    ' + text + (',' if i < len(parts) - 1 else trail))
    lines.append(')]')
    return '\n'.join(lines)


def render(d, line0=0):
    vis = d['vis'] + ' ' if d['vis'] else ''
    g = d['generics'] or ''
    pre = ''.join(x + '\n' for x in d.get('pre_attrs') or [])
    post = ''.join(x + '\n' for x in d.get('post_attrs') or [])
    wh = ' ' + d['where'] if d.get('where') else ''
    if d.get('in_fn'):
        # the declaration sits in a function body (the generated module is a block-local item)
        loc = d.get('local_items')
        body = f"{render_attr(d, line0 + (2 if loc else 1))}\n{vis}struct {d['name']}{g}({d['inner']});"
        return f"pub fn holder_{d['name'].lower()}() {{\n{loc + chr(10) if loc else ''}{body}\n}}\n"
    if d.get('in_mod'):
        # ... or in a nested module, with a visibility relative to it
        loc = d.get('local_items')
        body = f"{render_attr(d, line0 + (3 if loc else 2))}\n{vis}struct {d['name']}{g}({d['inner']});"
        return f"pub mod holder_{d['name'].lower()} {{\n    use super::*;\n{loc + chr(10) if loc else ''}{body}\n}}\n"
    if d.get('via_macro_ty'):
        # the inner type arrives as a `$t:ty` fragment (an invisible group around the type)
        body = f"{render_attr(d, line0 + 2)}\n{vis}struct {d['name']}{g}($t);"
        return (f"macro_rules! mk_{d['name']} {{\n    ($t:ty) => {{\n{body}\n    }};\n}}\n"
                f"mk_{d['name']}!({d['inner']});\n")
    if d.get('via_macro'):
        # the declaration is produced by a user's macro_rules!, the bound arrives as an `expr` fragment
        # (an invisible-delimiter group by the time the attribute macro sees it)
        body = f"{render_attr(d, line0 + 2)}\n{vis}struct {d['name']}{g}({d['inner']});"
        return (f"macro_rules! mk_{d['name']} {{\n    ($e:expr) => {{\n{body}\n    }};\n}}\n"
                f"mk_{d['name']}!({d['via_macro']});\n")
    return f"{pre}{render_attr(d, line0 + len(d.get('pre_attrs') or []))}\n{post}{vis}struct {d['name']}{g}({d['inner']}){wh};\n"


PRELUDE_STD = '''#![allow(dead_code, unused_imports, unused_variables, unused_mut, clippy::all)]
use nutype::nutype;
use std::borrow::Cow;

pub const MINLEN: usize = 3;
pub const MAXLEN: usize = 10;
pub const MIN: i32 = -100;
pub const MAX: i32 = 100;
pub const N: i32 = 3;
pub const fn len_lim() -> usize { 7 }
pub fn san_string(s: String) -> String { s.replace('x', "y") }
pub fn pred_str(s: &str) -> bool { s.len() != 4 }
#[derive(Debug, Clone, PartialEq, Eq)]
pub enum MyErr { Bad, Worse(i32) }
impl core::fmt::Display for MyErr { fn fmt(&self, f: &mut core::fmt::Formatter<'_>) -> core::fmt::Result { write!(f, "myerr") } }
impl std::error::Error for MyErr {}
pub fn check_str(s: &str) -> Result<(), MyErr> { if s.len() > 2 { Ok(()) } else { Err(MyErr::Bad) } }
#[derive(Debug, Clone, Copy, PartialEq, Eq, PartialOrd, Ord, Hash, Default)]
pub struct Point { pub x: i32, pub y: i32 }
impl core::fmt::Display for Point { fn fmt(&self, f: &mut core::fmt::Formatter<'_>) -> core::fmt::Result { write!(f, "({}, {})", self.x, self.y) } }
impl core::str::FromStr for Point { type Err = MyErr; fn from_str(s: &str) -> Result<Self, MyErr> { if s.is_empty() { Err(MyErr::Bad) } else { Ok(Point { x: s.len() as i32, y: 0 }) } } }
pub fn san_point(p: Point) -> Point { Point { x: p.x.abs(), y: p.y } }
pub fn pred_point(p: &Point) -> bool { p.x != p.y }
// an inner type with an inherent `from_str` next to its FromStr impl: `<Temp>::from_str(..)` and `str::parse::<Temp>()` differ
#[derive(Debug, Clone, Copy, PartialEq, PartialOrd)]
pub struct Temp(pub i32);
impl core::str::FromStr for Temp { type Err = MyErr; fn from_str(s: &str) -> Result<Self, MyErr> { s.parse::<i32>().map(Temp).map_err(|_| MyErr::Bad) } }
impl Temp { pub fn from_str(s: &str) -> Result<Self, MyErr> { s.trim().parse::<i32>().map(|x| Temp(x + 1)).map_err(|_| MyErr::Worse(0)) } }
impl core::fmt::Display for Temp { fn fmt(&self, f: &mut core::fmt::Formatter<'_>) -> core::fmt::Result { write!(f, "{}", self.0) } }
pub fn pred_temp(t: &Temp) -> bool { t.0 > -273 }
// a user trait in scope at every declaration whose *by-reference* methods are named like the inherent float methods the
// templates call by value: `val.is_finite()` on a `val: &f64` would resolve to this trait
pub trait Extent { fn is_finite(&self) -> bool; fn is_nan(&self) -> bool; fn is_infinite(&self) -> bool; }
impl Extent for f64 { fn is_finite(&self) -> bool { f64::abs(*self) != f64::INFINITY } fn is_nan(&self) -> bool { false } fn is_infinite(&self) -> bool { false } }
impl Extent for f32 { fn is_finite(&self) -> bool { f32::abs(*self) != f32::INFINITY } fn is_nan(&self) -> bool { false } fn is_infinite(&self) -> bool { false } }
pub mod helpers {
    pub fn pred_h(s: &str) -> bool { s.len() != 5 }
    pub fn san_h(s: String) -> String { s.replace('q', "k") }
    pub fn pred_hi(x: &i32) -> bool { *x != 6 }
    pub fn san_hi(x: i32) -> i32 { x / 3 }
    pub mod deep { pub fn pred_hf(x: &f64) -> bool { *x != 6.5 } }
}
pub fn check_point(p: &Point) -> Result<(), MyErr> { if p.x >= 0 { Ok(()) } else { Err(MyErr::Worse(p.x)) } }
'''

PRELUDE_NOSTD = '''#![no_std]
#![allow(dead_code, unused_imports, unused_variables, unused_mut, clippy::all)]
extern crate alloc;
use nutype::nutype;
pub const MIN: i32 = -100;
pub const MAX: i32 = 100;
#[derive(Debug, Clone, PartialEq, Eq)]
pub enum MyErr { Bad, Worse(i32) }
impl core::fmt::Display for MyErr { fn fmt(&self, f: &mut core::fmt::Formatter<'_>) -> core::fmt::Result { write!(f, "myerr") } }
impl core::error::Error for MyErr {}
#[derive(Debug, Clone, Copy, PartialEq, Eq, PartialOrd, Ord, Hash, Default)]
pub struct Point { pub x: i32, pub y: i32 }
impl core::fmt::Display for Point { fn fmt(&self, f: &mut core::fmt::Formatter<'_>) -> core::fmt::Result { write!(f, "({}, {})", self.x, self.y) } }
impl core::str::FromStr for Point { type Err = MyErr; fn from_str(s: &str) -> Result<Self, MyErr> { if s.is_empty() { Err(MyErr::Bad) } else { Ok(Point { x: s.len() as i32, y: 0 }) } } }
pub fn san_point(p: Point) -> Point { Point { x: p.x.abs(), y: p.y } }
pub fn pred_point(p: &Point) -> bool { p.x != p.y }
pub fn check_point(p: &Point) -> Result<(), MyErr> { if p.x >= 0 { Ok(()) } else { Err(MyErr::Worse(p.x)) } }
'''

PRELUDE_TRICKY = '''
// ... and one whose inherent methods shadow every trait method a template could be tempted to call with method syntax
#[derive(Debug, PartialEq, Eq, PartialOrd, Ord, Hash, Default)]
pub struct Tricky(pub i32);
impl Clone for Tricky { fn clone(&self) -> Self { Tricky(self.0) } }
impl core::fmt::Display for Tricky { fn fmt(&self, f: &mut core::fmt::Formatter<'_>) -> core::fmt::Result { write!(f, "t{}", self.0) } }
impl core::str::FromStr for Tricky { type Err = MyErr; fn from_str(s: &str) -> Result<Self, MyErr> { s.parse::<i32>().map(Tricky).map_err(|_| MyErr::Bad) } }
impl serde::Serialize for Tricky { fn serialize<S: serde::Serializer>(&self, s: S) -> Result<S::Ok, S::Error> { s.serialize_i32(self.0) } }
impl<'de> serde::Deserialize<'de> for Tricky { fn deserialize<D: serde::Deserializer<'de>>(d: D) -> Result<Self, D::Error> { <i32 as serde::Deserialize>::deserialize(d).map(Tricky) } }
impl<'a> arbitrary::Arbitrary<'a> for Tricky { fn arbitrary(u: &mut arbitrary::Unstructured<'a>) -> arbitrary::Result<Self> { Ok(Tricky(u.arbitrary()?)) } }
#[allow(clippy::should_implement_trait, clippy::wrong_self_convention)]
impl Tricky {
    pub fn clone(&self) -> Self { Tricky(self.0 + 1) }
    pub fn fmt(&self, _f: &mut core::fmt::Formatter<'_>) -> core::fmt::Result { Err(core::fmt::Error) }
    pub fn from_str(_s: &str) -> Result<Self, MyErr> { Ok(Tricky(-1)) }
    pub fn to_string(&self) -> String { String::from("inherent") }
    pub fn eq(&self, _o: &Self) -> bool { true }
    pub fn cmp(&self, _o: &Self) -> core::cmp::Ordering { core::cmp::Ordering::Equal }
    pub fn partial_cmp(&self, _o: &Self) -> Option<core::cmp::Ordering> { None }
    pub fn hash<H>(&self, _h: &mut H) {}
    pub fn default() -> Self { Tricky(99) }
    pub fn as_ref(&self) -> &Self { self }
    pub fn borrow(&self) -> &Self { self }
    pub fn serialize<S>(&self, _s: S) -> Result<(), ()> { Ok(()) }
    pub fn deserialize<D>(_d: D) -> Result<Self, ()> { Ok(Tricky(-2)) }
    pub fn arbitrary<U>(_u: U) -> Result<Self, ()> { Ok(Tricky(-3)) }
    pub fn into(self) -> i32 { self.0 }
    pub fn try_into(self) -> Result<i32, ()> { Ok(self.0) }
}
pub fn pred_tricky(t: &Tricky) -> bool { t.0 != 13 }
'''

PRELUDE_REGEX = '''
pub static RE_STATIC: std::sync::LazyLock<regex::Regex> = std::sync::LazyLock::new(|| regex::Regex::new("^[a-z]+$").unwrap());
'''


def numeric_prelude():
    out = []
    for t in INT_TYPES_ALL:
        U = t.upper()
        out.append(f'pub const K_{U}: {t} = {K};')
        out.append(f'pub const fn lim_{t}() -> {t} {{ {LIM} }}')
        out.append(f'pub fn san_{t}(x: {t}) -> {t} {{ x / 2 }}')
        out.append(f'pub fn pred_{t}(x: &{t}) -> bool {{ *x != 4 }}')
        out.append(f'pub fn check_{t}(x: &{t}) -> Result<(), MyErr> {{ if *x != 4 {{ Ok(()) }} else {{ Err(MyErr::Bad) }} }}')
    for t in FLOAT_TYPES:
        U = t.upper()
        out.append(f'pub const KF_{U}: {t} = {KF};')
        out.append(f'pub const fn limf_{t}() -> {t} {{ {LIMF} }}')
        out.append(f'pub fn san_{t}(x: {t}) -> {t} {{ x / 2.0 }}')
        out.append(f'pub fn pred_{t}(x: &{t}) -> bool {{ *x != 4.0 }}')
        out.append(f'pub fn check_{t}(x: &{t}) -> Result<(), MyErr> {{ if *x != 4.0 {{ Ok(()) }} else {{ Err(MyErr::Bad) }} }}')
    out.append('pub mod consts {')
    for t in INT_TYPES_ALL:
        out.append(f'    pub const LIM_{t.upper()}: {t} = 9;')
    for t in FLOAT_TYPES:
        out.append(f'    pub const FLIM_{t.upper()}: {t} = 9.5;')
    out.append('}')
    # user constants named like the limits of primitive types, reached through a path
    out.append('pub const SH_U8: u8 = 200; pub const SH_I32: i32 = 300; pub const SH_F64: f64 = -300.5; pub const SH_LEN: usize = 30;')
    out.append('pub mod month { pub const MIN: u8 = 1; pub const MAX: u8 = 12; }')
    out.append('pub mod limits { pub const MIN: i32 = -40; pub const MAX: i32 = 100; }')
    out.append('pub mod flimits { pub const MIN: f64 = -4.5; pub const MAX: f64 = 9.5; }')
    out.append('pub mod lens { pub const MIN: usize = 2; pub const MAX: usize = 7; }')
    out.append('pub struct Celsius; impl Celsius { pub const MIN: f64 = -273.15; pub const MAX: f64 = 1000.0; }')
    out.append('macro_rules! lim_m { () => { 6 } }')
    out.append('macro_rules! flim_m { () => { 6.5 } }')
    return '\n'.join(out) + '\n'


# --------------------------------------------------------------------------
# derive sets (Sigma's derive matrix, Appendix A)
# --------------------------------------------------------------------------

BASE_VIEW = ['Debug', 'Clone', 'PartialEq', 'PartialOrd', 'AsRef', 'Deref', 'Borrow', 'Into', 'Display', 'FromStr']


def full_derives(family, has_validation, has_finite=False, with_default=False, arbitrary_ok=True,
                 serde=True, copy=True):
    ds = list(BASE_VIEW)
    if family == 'string':
        ds += ['Eq', 'Ord', 'Hash']
    elif family == 'int':
        ds += ['Eq', 'Ord', 'Hash']
        if copy:
            ds.append('Copy')
    elif family == 'float':
        if copy:
            ds.append('Copy')
        if has_finite:
            ds += ['Eq', 'Ord']
    ds.append('TryFrom' if has_validation else 'From')
    if serde:
        ds += ['Serialize', 'Deserialize']
    if arbitrary_ok:
        ds.append('Arbitrary')
    if with_default:
        ds.append('Default')
    return ds


# --------------------------------------------------------------------------
# grid
# --------------------------------------------------------------------------

def _pick(seq, n, rnd):
    seq = list(seq)
    if len(seq) <= n:
        return seq
    return rnd.sample(seq, n)


def random_decls(rnd, n, tier):
    """declarations drawn at random from the product of the grammar's dimensions: inner type x lower/upper bound kind x
    spelling form x validator order x finite/predicate position x sanitizer x flags x derive profile x default.
    Every draw is a declaration the reference model accepts; what it means is recorded exactly as for the
    hand-enumerated part of the grid."""
    out = []
    num_types = INT_TYPES_ALL + FLOAT_TYPES
    tries = 0
    while len(out) < n and tries < n * 20:
        tries += 1
        fam = rnd.choices(['int', 'float', 'string'], [5, 4, 3])[0]
        if fam in ('int', 'float'):
            t = rnd.choice(INT_TYPES_ALL if fam == 'int' else FLOAT_TYPES)
            sps = int_spellings(t, tier) if fam == 'int' else [x for x in float_spellings(t, tier) if x[1] not in (float('inf'), float('-inf'))]
            lo_kind = rnd.choice([None, 'greater', 'greater_or_equal'])
            up_kind = rnd.choice([None, 'less', 'less_or_equal'])
            vs = []
            lo = up = None
            if lo_kind:
                lo = rnd.choice(sps)
            if up_kind:
                cands = [x for x in sps if lo is None or (x[1] - lo[1] >= (3 if fam == 'int' else 0.5))]
                if not cands:
                    continue
                up = rnd.choice(cands)
            if lo is not None and fam == 'int' and lo_kind == 'greater' and lo[1] == int_max(t):
                continue
            if up is not None and fam == 'int' and up_kind == 'less' and up[1] == int_min(t):
                continue
            if lo is not None:
                vs.append(V(lo_kind, *lo))
            if up is not None:
                vs.append(V(up_kind, *up))
            has_pred = rnd.random() < 0.2
            if has_pred:
                vs.append(V('predicate', rnd.choice(['|x| *x != 4' if fam == 'int' else '|x| *x != 4.0']), form='closure') if rnd.random() < 0.6
                          else V('predicate', f'pred_{t}', form='path', callee=f'pred_{t}'))
            has_finite = fam == 'float' and rnd.random() < 0.55
            if has_finite:
                vs.append(V('finite'))
            rnd.shuffle(vs)
            san = []
            r = rnd.random()
            if r < 0.15:
                san = [S('with', '|x| x / 2' if fam == 'int' else '|x| x / 2.0', 'closure')]
            elif r < 0.25:
                san = [S('with', f'san_{t}', 'path', callee=f'san_{t}')]
            hv = bool(vs)
            literal_only = all(v.get('form') in (None, 'lit') for v in vs)
            profile = rnd.choice(['conv', 'views', 'serde', 'arb', 'all', 'min'])
            ds = ['Debug']
            if profile in ('conv', 'all'):
                ds += ['FromStr', 'TryFrom' if hv or rnd.random() < 0.3 else 'From', 'Into', 'Display']
            if profile in ('views', 'all'):
                ds += ['Clone', 'Copy', 'PartialEq', 'PartialOrd', 'AsRef', 'Deref', 'Borrow']
                if fam == 'int':
                    ds += ['Eq', 'Ord', 'Hash']
                elif has_finite:
                    ds += ['Eq', 'Ord']
            if profile in ('serde', 'all'):
                ds += ['Serialize', 'Deserialize']
            if profile in ('arb', 'all') and not has_pred and not (san and hv) and (fam == 'int' or literal_only):
                ds.append('Arbitrary')
            default = None
            if rnd.random() < 0.2:
                dv = rnd.choice([1, 3, 7, 50])
                default = {'text': str(dv) if fam == 'int' else f'{dv}.0', 'value': dv if fam == 'int' else float(dv)}
                ds.append('Default')
            const_fn = rnd.random() < 0.15 and not san and not has_pred
            new_unchecked = rnd.random() < 0.1
            out.append(decl(fam, t, sanitizers=san, validators=vs, derives=ds, default=default, const_fn=const_fn, new_unchecked=new_unchecked,
                            vis=rnd.choice(['pub', 'pub', '', 'pub(crate)']),
                            layout={'order': rnd.sample(['sanitize', 'validate', 'derive', 'default', 'const_fn', 'new_unchecked'], 6),
                                    'trailing': rnd.random() < 0.3, 'trailing_outer': rnd.random() < 0.3}, tags=['random-product']))
        else:
            kinds = rnd.sample(['not_empty', 'len_char_min', 'len_char_max', 'predicate', 'regex'], rnd.randint(0, 4))
            vs = []
            mn = rnd.choice(len_spellings(tier))
            mx = rnd.choice([x for x in len_spellings(tier) if x[1] >= mn[1] + 2] or [('40', 40, 'lit')])
            for k in kinds:
                if k == 'not_empty':
                    vs.append(V('not_empty'))
                elif k == 'len_char_min':
                    vs.append(V('len_char_min', *mn))
                elif k == 'len_char_max':
                    vs.append(V('len_char_max', *mx))
                elif k == 'predicate':
                    vs.append(V('predicate', '|s| s.len() != 4', form='closure') if rnd.random() < 0.5 else V('predicate', 'pred_str', form='path', callee='pred_str'))
                else:
                    vs.append(V('regex', '"^[a-z]+$"', form='lit', pattern='^[a-z]+$') if rnd.random() < 0.5 else V('regex', 'RE_STATIC', form='path', callee='RE_STATIC'))
            sl = rnd.choice([[], ['trim'], ['lowercase'], ['uppercase'], ['trim', 'lowercase'], ['lowercase', 'trim'], ['trim', 'uppercase'], ['uppercase', 'trim']])
            san = [S(x) for x in sl]
            custom_san = rnd.random() < 0.15
            if custom_san:
                san.insert(rnd.randint(0, len(san)), S('with', 'san_string', 'path', callee='san_string'))
            hv = bool(vs)
            ds = ['Debug']
            profile = rnd.choice(['conv', 'views', 'serde', 'arb', 'all', 'min'])
            if profile in ('conv', 'all'):
                ds += ['FromStr', 'TryFrom' if hv or rnd.random() < 0.3 else 'From', 'Into', 'Display']
            if profile in ('views', 'all'):
                ds += ['Clone', 'PartialEq', 'Eq', 'PartialOrd', 'Ord', 'Hash', 'AsRef', 'Deref', 'Borrow']
            if profile in ('serde', 'all'):
                ds += ['Serialize', 'Deserialize']
            case_and_max = any(x in sl for x in ('lowercase', 'uppercase')) and 'len_char_max' in kinds
            if profile in ('arb', 'all') and not custom_san and not ({'predicate', 'regex'} & set(kinds)) and not case_and_max \
                    and all(v.get('form') in (None, 'lit') for v in vs):
                ds.append('Arbitrary')
            default = None
            if rnd.random() < 0.2:
                default = {'text': '"  Hello  "', 'value': '  Hello  '}
                ds.append('Default')
            out.append(decl('string', 'String', sanitizers=san, validators=vs, derives=ds, default=default, new_unchecked=rnd.random() < 0.1,
                            vis=rnd.choice(['pub', '', 'pub(crate)']),
                            layout={'order': rnd.sample(['sanitize', 'validate', 'derive', 'default', 'new_unchecked'], 5),
                                    'trailing': rnd.random() < 0.3, 'trailing_outer': rnd.random() < 0.3}, tags=['random-product']))
    return out


def build(tier='quick', seed=0):
    """Returns dict crate_name -> {'features':[..], 'prelude': str, 'decls': [decl..]}"""
    rnd = random.Random(seed)
    thorough = tier == 'thorough'
    full = []   # features: serde arbitrary new_unchecked regex
    nostd = []  # default-features = false, serde arbitrary
    int_types = INT_TYPES_ALL if thorough else INT_TYPES_QUICK
    extra_types = [] if thorough else [t for t in INT_TYPES_ALL if t not in INT_TYPES_QUICK]

    LOWERS = ['greater', 'greater_or_equal']
    UPPERS = ['less', 'less_or_equal']

    # ---------------- integers: each single validator x every spelling --------------
    for t in int_types:
        sps = int_spellings(t, tier)
        for kind in LOWERS + UPPERS:
            for (text, value, form) in sps:
                # avoid an empty valid set: skip greater=MAX, less=MIN (still *accepted* by the
                # macro, but C09/C14 premise "valid set non-empty" fails)
                arb = True
                if kind == 'greater' and value == int_max(t):
                    arb = False
                if kind == 'less' and value == int_min(t):
                    arb = False
                if not thorough and t not in ('i32', 'u8') and form == 'lit' and text not in ('10',):
                    continue
                derives = ['Debug', 'Clone', 'Copy', 'PartialEq', 'TryFrom', 'FromStr', 'Display', 'Into']
                if arb:
                    derives.append('Arbitrary')
                full.append(decl('int', t, validators=[V(kind, text, value, form)], derives=derives,
                                 tags=['single', 'spelling']))
        # pairs lower x upper in both orders; literal and expression
        for lo, up in itertools.product(LOWERS, UPPERS):
            U = t.upper()
            pairs = [((('2', 2, 'lit')), ('100', 100, 'lit')),
                     ((f'K_{U}', K, 'expr'), (f'K_{U} << 2', K << 2, 'expr')),
                     ((f'{t}::MIN', int_min(t), 'expr'), (f'lim_{t}()', LIM, 'call'))]
            if int_signed(t):
                pairs.append((('-100', -100, 'lit'), ('-2', -2, 'lit')))
                pairs.append(((f'-K_{U}', -K, 'expr'), (f'K_{U}', K, 'expr')))
            for (a, b) in pairs:
                for order in (0, 1):
                    vs = [V(lo, *a), V(up, *b)]
                    if order:
                        vs.reverse()
                    if not thorough and order and a[2] == 'lit' and t not in ('i32', 'u8'):
                        continue
                    full.append(decl('int', t, validators=vs,
                                     derives=full_derives('int', True), tags=['pair']))
        # narrow ranges (C14/C09)
        U = t.upper()
        full.append(decl('int', t, validators=[V('greater_or_equal', '126', 126, 'lit'), V('less_or_equal', '127', 127, 'lit')],
                         derives=['Debug', 'Arbitrary', 'TryFrom'], tags=['narrow']))
        full.append(decl('int', t, validators=[V('greater', '5', 5, 'lit'), V('less', '7', 7, 'lit')],
                         derives=['Debug', 'Arbitrary'], tags=['narrow']))
        full.append(decl('int', t, validators=[V('greater_or_equal', f'{t}::MAX', int_max(t), 'expr')],
                         derives=['Debug', 'Arbitrary'], tags=['narrow']))
        full.append(decl('int', t, validators=[V('less_or_equal', f'{t}::MIN', int_min(t), 'expr')],
                         derives=['Debug', 'Arbitrary'], tags=['narrow']))
        # predicate (closure and path), with bounds, in all positions
        full.append(decl('int', t, validators=[V('predicate', f'|x| *x != 4', form='closure')],
                         derives=full_derives('int', True, arbitrary_ok=False), tags=['predicate']))
        full.append(decl('int', t, validators=[V('predicate', f'pred_{t}', form='path', callee=f'pred_{t}'),
                                                V('less', '50', 50, 'lit')],
                         derives=['Debug', 'TryFrom'], tags=['predicate']))
        full.append(decl('int', t, validators=[V('greater', '1', 1, 'lit'), V('predicate', f'|x: &{t}| *x != 4', form='closure'),
                                                V('less', '50', 50, 'lit')],
                         derives=['Debug', 'TryFrom'], tags=['predicate']))
        # sanitizers: closure and path, with and without validators; const_fn twins
        full.append(decl('int', t, sanitizers=[S('with', f'|x| x.clamp(1, 100)', 'closure')],
                         derives=full_derives('int', False), tags=['sanitize']))
        full.append(decl('int', t, sanitizers=[S('with', f'san_{t}', 'path', callee=f'san_{t}')],
                         validators=[V('less_or_equal', '40', 40, 'lit')],
                         derives=full_derives('int', True, arbitrary_ok=False), tags=['sanitize']))
        full.append(decl('int', t, sanitizers=[S('with', f'|x: {t}| x / 2', 'closure')],
                         validators=[V('greater_or_equal', '1', 1, 'lit'), V('less', '40', 40, 'lit')],
                         derives=['Debug', 'TryFrom', 'FromStr', 'Deserialize', 'Serialize'], tags=['sanitize']))
        # sanitize-only / bare + TryFrom (Infallible) instead of From
        full.append(decl('int', t, sanitizers=[S('with', f'|x| x.clamp(1, 100)', 'closure')],
                         derives=['Debug', 'TryFrom', 'FromStr', 'Deserialize', 'Serialize'], tags=['sanitize', 'infallible']))
        full.append(decl('int', t, derives=['Debug', 'TryFrom', 'FromStr'], tags=['bare', 'infallible']))
        # custom sanitizer + validators + Arbitrary (accepted by the macro for integers)
        full.append(decl('int', t, sanitizers=[S('with', '|x| x / 2', 'closure')],
                         validators=[V('greater_or_equal', '1', 1, 'lit'), V('less', '40', 40, 'lit')],
                         derives=['Debug', 'Arbitrary'], tags=['arb', 'sanitize']))
        # no guards at all
        full.append(decl('int', t, derives=full_derives('int', False, with_default=True),
                         default={'text': '42', 'value': 42}, tags=['bare']))
        # custom validation
        full.append(decl('int', t, custom={'with_text': f'check_{t}', 'form': 'path', 'callee': f'check_{t}', 'error': 'MyErr'},
                         derives=full_derives('int', True, arbitrary_ok=False), tags=['custom']))
        full.append(decl('int', t, custom={'with_text': f'check_{t}', 'form': 'path', 'callee': f'check_{t}', 'error': 'MyErr', 'error_first': True},
                         sanitizers=[S('with', f'|x| x / 2', 'closure')],
                         derives=['Debug', 'TryFrom', 'FromStr', 'Deserialize'], tags=['custom']))
        # default: valid, invalid, needing sanitisation
        full.append(decl('int', t, validators=[V('greater_or_equal', '1', 1, 'lit'), V('less_or_equal', '9', 9, 'lit')],
                         derives=['Debug', 'Default', 'TryFrom'], default={'text': '5', 'value': 5}, tags=['default']))
        full.append(decl('int', t, validators=[V('greater_or_equal', '1', 1, 'lit')],
                         derives=['Debug', 'Default'], default={'text': f'K_{U} * 2', 'value': K * 2}, tags=['default']))
        full.append(decl('int', t, sanitizers=[S('with', f'|x| x.clamp(1, 9)', 'closure')], validators=[V('less_or_equal', '9', 9, 'lit')],
                         derives=['Debug', 'Default'], default={'text': '100', 'value': 100}, tags=['default']))
        # const_fn twins + new_unchecked
        for cf in (False, True):
            full.append(decl('int', t, validators=[V('greater_or_equal', '1', 1, 'lit'), V('less', f'K_{U} * 2', K * 2, 'expr')],
                             derives=['Debug', 'Clone', 'Copy', 'PartialEq', 'TryFrom', 'Into'],
                             const_fn=cf, tags=['consteq'], note='twin:A' + t))
            full.append(decl('int', t, derives=['Debug', 'From'], const_fn=cf, tags=['consteq'], note='twin:B' + t))
        full.append(decl('int', t, validators=[V('less', '10', 10, 'lit')], new_unchecked=True, const_fn=True,
                         derives=['Debug'], tags=['unchecked']))
        full.append(decl('int', t, new_unchecked=True, derives=['Debug'], tags=['unchecked']))

    # ---------------- quick tier: the remaining integer types with a reduced grid --------------------------
    for t in extra_types:
        U = t.upper()
        for kind in LOWERS + UPPERS:
            red = [('10', 10, 'lit'), (f'K_{U} << 2', K << 2, 'expr'), (f'{t}::MAX' if kind in UPPERS else f'{t}::MIN', int_max(t) if kind in UPPERS else int_min(t), 'expr')]
            red.append(('!0', (-1 if int_signed(t) else int_max(t)), 'expr'))
            if int_bits(t) >= 64:
                red += [('(1 << 31)', 1 << 31, 'expr'), ('(2_000_000_000 + 2_000_000_000)', 4_000_000_000, 'expr')]
            for (text, value, form) in red:
                arb = not ((kind == 'greater' and value == int_max(t)) or (kind == 'less' and value == int_min(t)))
                full.append(decl('int', t, validators=[V(kind, text, value, form)],
                                 derives=['Debug', 'Clone', 'Copy', 'PartialEq', 'TryFrom', 'FromStr', 'Display', 'Into'] + (['Arbitrary'] if arb else []),
                                 tags=['single', 'spelling']))
        for lo, up in itertools.product(LOWERS, UPPERS):
            vs = [V(lo, f'K_{U}', K, 'expr'), V(up, '100', 100, 'lit')]
            full.append(decl('int', t, validators=vs, derives=full_derives('int', True), tags=['pair']))
            full.append(decl('int', t, validators=list(reversed(vs)), derives=['Debug', 'TryFrom', 'Arbitrary', 'Deserialize'], tags=['pair']))
        if int_signed(t):
            full.append(decl('int', t, validators=[V('greater', f'-K_{U}', -K, 'expr'), V('less_or_equal', '-1', -1, 'lit')], derives=full_derives('int', True), tags=['pair']))
        full.append(decl('int', t, sanitizers=[S('with', f'|x| x / 2', 'closure')], validators=[V('greater_or_equal', '1', 1, 'lit'), V('less', '40', 40, 'lit'),
                         V('predicate', '|x| *x != 4', form='closure')], derives=full_derives('int', True, arbitrary_ok=False), tags=['sanitize']))
        full.append(decl('int', t, derives=full_derives('int', False, with_default=True), default={'text': '42', 'value': 42}, tags=['bare']))
        full.append(decl('int', t, custom={'with_text': f'check_{t}', 'form': 'path', 'callee': f'check_{t}', 'error': 'MyErr'},
                         derives=full_derives('int', True, arbitrary_ok=False), tags=['custom']))
        full.append(decl('int', t, validators=[V('less', '10', 10, 'lit')], new_unchecked=True, const_fn=True, derives=['Debug', 'Default'],
                         default={'text': '3', 'value': 3}, tags=['unchecked', 'default']))

    # ---------------- thorough: random literal bounds (seeded) and spelling x spelling pairs ----------
    if thorough:
        for t in int_types:
            lo_t, hi_t = int_min(t), int_max(t)
            picks = set()
            specials = [lo_t, lo_t + 1, -1, 0, 1, 2, hi_t - 1, hi_t, hi_t // 2, lo_t // 2]
            specials = [x for x in specials if lo_t <= x <= hi_t]
            while len(picks) < 24:
                a = rnd.choice(specials) if rnd.random() < 0.5 else rnd.randint(lo_t, hi_t)
                b = rnd.choice(specials) if rnd.random() < 0.5 else rnd.randint(lo_t, hi_t)
                if a + 2 <= b:
                    picks.add((a, b))
            for (a, b) in sorted(picks):
                lo, up = rnd.choice(LOWERS), rnd.choice(UPPERS)
                vs = [V(lo, str(a), a, 'lit'), V(up, str(b), b, 'lit')]
                if rnd.random() < 0.5:
                    vs.reverse()
                full.append(decl('int', t, validators=vs, derives=['Debug', 'TryFrom', 'FromStr', 'Arbitrary', 'Display'], tags=['random-literal']))
            sps = [sp for sp in int_spellings(t, tier) if sp[2] != 'lit']
            pairs = [(x, y) for x in sps for y in sps if x[1] + 2 <= y[1]]
            for (x, y) in _pick(pairs, 40, rnd):
                lo, up = rnd.choice(LOWERS), rnd.choice(UPPERS)
                vs = [V(lo, *x), V(up, *y)]
                if rnd.random() < 0.5:
                    vs.reverse()
                full.append(decl('int', t, validators=vs, derives=['Debug', 'TryFrom', 'Arbitrary'], tags=['spelling-pair']))
        for t in FLOAT_TYPES:
            sps = [sp for sp in float_spellings(t, tier) if sp[1] not in (float('inf'), float('-inf'))]
            pairs = [(x, y) for x in sps for y in sps if x[1] < y[1]]
            for (x, y) in _pick(pairs, 80, rnd):
                lo, up = rnd.choice(LOWERS), rnd.choice(UPPERS)
                vs = [V(lo, *x), V(up, *y)]
                if rnd.random() < 0.5:
                    vs.reverse()
                fin = rnd.random() < 0.5
                full.append(decl('float', t, validators=vs + ([V('finite')] if fin else []),
                                 derives=['Debug', 'TryFrom', 'FromStr', 'PartialEq', 'PartialOrd', 'Display'] + (['Arbitrary'] if x[2] == 'lit' and y[2] == 'lit' else []),
                                 tags=['spelling-pair']))
        # every pair of derivable traits (plus their prerequisites) per family, with and without validation
        fam_traits = {
            'int': ('i64', ['Debug', 'Clone', 'Copy', 'PartialEq', 'Eq', 'PartialOrd', 'Ord', 'Hash', 'AsRef', 'Deref', 'Borrow', 'Into', 'Display', 'FromStr', 'Serialize', 'Deserialize', 'Arbitrary'],
                    [V('greater_or_equal', '1', 1, 'lit'), V('less', '1_000', 1000, 'lit')]),
            'float': ('f64', ['Debug', 'Clone', 'Copy', 'PartialEq', 'Eq', 'PartialOrd', 'Ord', 'AsRef', 'Deref', 'Borrow', 'Into', 'Display', 'FromStr', 'Serialize', 'Deserialize', 'Arbitrary'],
                      [V('finite'), V('greater_or_equal', '1', 1.0, 'lit'), V('less_or_equal', '1e3', 1000.0, 'lit')]),
            'string': ('String', ['Debug', 'Clone', 'PartialEq', 'Eq', 'PartialOrd', 'Ord', 'Hash', 'AsRef', 'Deref', 'Borrow', 'Into', 'Display', 'FromStr', 'Serialize', 'Deserialize', 'Arbitrary'],
                       [V('not_empty'), V('len_char_max', '12', 12, 'lit')]),
        }
        req = {'Copy': ['Clone'], 'Eq': ['PartialEq'], 'Ord': ['PartialEq', 'Eq', 'PartialOrd'], 'PartialOrd': ['PartialEq']}
        for fam, (inner, traits, vs) in fam_traits.items():
            for a, b in itertools.combinations(traits, 2):
                ds = []
                for x in req.get(a, []) + req.get(b, []) + [a, b]:
                    if x not in ds:
                        ds.append(x)
                full.append(decl(fam, inner, validators=vs, derives=ds + ['TryFrom'], tags=['derive-pair']))
                if rnd.random() < 0.35:
                    fvs = [v for v in vs if v['kind'] == 'finite'] if fam == 'float' and ({'Eq', 'Ord'} & set(ds)) else []
                    if not fvs:
                        full.append(decl(fam, inner, sanitizers=[S('trim')] if fam == 'string' else [], derives=ds + ['From'], tags=['derive-pair']))

    # ---------------- user constants whose names a template could also introduce (MIN, MAX, N) ------------
    cap = [('MAX - 10', 90), ('MIN + 20', -80), ('MAX', 100), ('MIN', -100), ('N', 3), ('N * 2', 6)]
    for (text, value) in cap:
        for kind in LOWERS + UPPERS:
            full.append(decl('int', 'i32', validators=[V(kind, text, value, 'expr')],
                             derives=['Debug', 'Clone', 'Copy', 'PartialEq', 'TryFrom', 'FromStr', 'Display', 'Arbitrary', 'Serialize', 'Deserialize'],
                             tags=['name-capture']))
    full.append(decl('int', 'i32', validators=[V('greater_or_equal', 'MIN + 20', -80, 'expr'), V('less_or_equal', 'MAX - 10', 90, 'expr')],
                     derives=['Debug', 'TryFrom', 'Arbitrary', 'Default'], default={'text': 'N', 'value': 3}, tags=['name-capture']))

    # ---------------- integers: all ordered validator subsets (C07) -----------------
    for t in (int_types if thorough else ['i32', 'u8']):
        kinds = ['greater', 'greater_or_equal', 'less', 'less_or_equal', 'predicate']
        bound = {'greater': ('2', 2), 'greater_or_equal': ('2', 2), 'less': ('90', 90), 'less_or_equal': ('90', 90)}
        subsets = []
        for r in (2, 3):
            for combo in itertools.permutations(kinds, r):
                if 'greater' in combo and 'greater_or_equal' in combo:
                    continue
                if 'less' in combo and 'less_or_equal' in combo:
                    continue
                subsets.append(combo)
        if not thorough:
            subsets = [c for c in subsets if len(c) == 2] + _pick([c for c in subsets if len(c) == 3], 12, rnd)
        for combo in subsets:
            vs = []
            for k in combo:
                if k == 'predicate':
                    vs.append(V('predicate', '|x| *x != 4', form='closure'))
                else:
                    vs.append(V(k, bound[k][0], bound[k][1], 'lit'))
            full.append(decl('int', t, validators=vs, derives=['Debug', 'TryFrom'], tags=['order']))

    # ---------------- floats --------------------------------------------------------
    for t in FLOAT_TYPES:
        U = t.upper()
        sps = float_spellings(t, tier)
        for kind in LOWERS + UPPERS:
            for (text, value, form) in sps:
                arb = True
                # Arbitrary generators for infinite bounds / MAX are outside C09's "valid set
                # non-empty" reasoning for some kinds; keep Arbitrary off for +-inf bounds.
                if value in (float('inf'), float('-inf')):
                    arb = False
                derives = ['Debug', 'Clone', 'Copy', 'PartialEq', 'PartialOrd', 'TryFrom', 'FromStr', 'Display']
                full.append(decl('float', t, validators=[V(kind, text, value, form)], derives=derives,
                                 tags=['single', 'spelling']))
        for lo, up in itertools.product(LOWERS, UPPERS):
            pairs = [(('0.5', 0.5, 'lit'), ('100', 100.0, 'lit')),
                     (('-1.0', -1.0, 'lit'), ('1.0', 1.0, 'lit')),
                     ((f'KF_{U}', KF, 'expr'), (f'KF_{U} * 2.0', KF * 2, 'expr')),
                     ((f'-KF_{U}', -KF, 'expr'), (f'limf_{t}()', LIMF, 'call'))]
            for (a, b) in pairs:
                for order in (0, 1):
                    vs = [V(lo, *a), V(up, *b)]
                    if order:
                        vs.reverse()
                    full.append(decl('float', t, validators=vs + [V('finite')],
                                     derives=full_derives('float', True, has_finite=True), tags=['pair']))
                    if not thorough:
                        break
        # finite in every position with bounds
        for pos in range(3):
            vs = [V('greater_or_equal', '0', 0.0, 'lit'), V('less', '1', 1.0, 'lit')]
            vs.insert(pos, V('finite'))
            full.append(decl('float', t, validators=vs, derives=full_derives('float', True, has_finite=True), tags=['finite']))
        full.append(decl('float', t, validators=[V('finite')], derives=full_derives('float', True, has_finite=True), tags=['finite']))
        full.append(decl('float', t, validators=[V('finite')], derives=full_derives('float', True, has_finite=True, with_default=True),
                         default={'text': '0.25', 'value': 0.25}, tags=['finite', 'default']))
        full.append(decl('float', t, validators=[V('finite'), V('predicate', '|x| *x != 4.0', form='closure')],
                         derives=full_derives('float', True, has_finite=True, arbitrary_ok=False), tags=['finite', 'predicate']))
        full.append(decl('float', t, validators=[V('predicate', f'pred_{t}', form='path', callee=f'pred_{t}'), V('greater', '0', 0.0, 'lit')],
                         derives=['Debug', 'TryFrom', 'PartialEq', 'PartialOrd'], tags=['predicate']))
        full.append(decl('float', t, sanitizers=[S('with', '|x| x.clamp(0.0, 1.0)', 'closure')],
                         derives=full_derives('float', False), tags=['sanitize']))
        full.append(decl('float', t, sanitizers=[S('with', f'san_{t}', 'path', callee=f'san_{t}')],
                         validators=[V('finite'), V('less_or_equal', '40', 40.0, 'lit')],
                         derives=full_derives('float', True, has_finite=True, arbitrary_ok=False), tags=['sanitize']))
        full.append(decl('float', t, sanitizers=[S('with', '|x| x.clamp(0.0, 1.0)', 'closure')],
                         derives=['Debug', 'TryFrom', 'FromStr', 'Deserialize', 'Serialize'], tags=['sanitize', 'infallible']))
        full.append(decl('float', t, derives=full_derives('float', False, with_default=True),
                         default={'text': '1.5', 'value': 1.5}, tags=['bare']))
        full.append(decl('float', t, custom={'with_text': f'check_{t}', 'form': 'path', 'callee': f'check_{t}', 'error': 'MyErr'},
                         derives=full_derives('float', True, arbitrary_ok=False), tags=['custom']))
        full.append(decl('float', t, validators=[V('greater_or_equal', '0', 0.0, 'lit'), V('finite')],
                         derives=['Debug', 'Default', 'PartialEq', 'Eq', 'PartialOrd', 'Ord'], default={'text': '-1.0', 'value': -1.0}, tags=['default']))
        for cf in (False, True):
            full.append(decl('float', t, validators=[V('greater_or_equal', '0.0', 0.0, 'lit'), V('less', f'KF_{U} * 2.0', KF * 2, 'expr')],
                             derives=['Debug', 'Clone', 'Copy', 'PartialEq', 'TryFrom', 'Into'],
                             const_fn=cf, tags=['consteq'], note='twin:A' + t))
        full.append(decl('float', t, validators=[V('finite')], new_unchecked=True, derives=['Debug', 'PartialEq', 'Eq', 'PartialOrd', 'Ord'], tags=['unchecked']))
        # const_fn twins of the Eq/Ord declarations: `finite` is the only thing that keeps NaN out, also in a const fn
        for cf in (False, True):
            full.append(decl('float', t, validators=[V('finite')], const_fn=cf,
                             derives=['Debug', 'Clone', 'Copy', 'PartialEq', 'Eq', 'PartialOrd', 'Ord', 'TryFrom', 'FromStr'], tags=['consteq', 'ord'], note='twin:F' + t))
            full.append(decl('float', t, validators=[V('greater', '-1.5', -1.5, 'lit'), V('finite'), V('less_or_equal', '64.0', 64.0, 'lit')], const_fn=cf,
                             derives=['Debug', 'PartialEq', 'Eq', 'PartialOrd', 'Ord', 'TryFrom', 'Deserialize'], tags=['consteq', 'ord'], note='twin:G' + t))
        # Arbitrary generators (C09): literal bounds of several magnitudes
        arb_cases = [
            [V('greater_or_equal', '0.0', 0.0, 'lit'), V('less_or_equal', '1.0', 1.0, 'lit')],
            [V('greater_or_equal', '-10.5', -10.5, 'lit'), V('less_or_equal', '20.25', 20.25, 'lit')],
            [V('finite')],
            [V('greater_or_equal', '3.0', 3.0, 'lit')],
            [V('less_or_equal', '3.0', 3.0, 'lit')],
        ]
        big = ('1e32', f32_round(1e32)) if t == 'f32' else ('1e300', 1e300)
        for bk, bt, bv in (('greater_or_equal', '0.0', 0.0), ('greater', '1.5', 1.5), ('less_or_equal', '0.0', 0.0), ('less', '-1.5', -1.5),
                           ('greater_or_equal', '1e30', 1e30), ('less', '100', 100.0),
                           # bounds of a magnitude where |basic| + bound leaves the finite range
                           ('greater_or_equal', big[0], big[1]), ('less_or_equal', '-' + big[0], -big[1]), ('greater', big[0], big[1])):
            arb_cases.append([V(bk, bt, bv, 'lit'), V('finite')])
            arb_cases.append([V('finite'), V(bk, bt, bv, 'lit')])
        # ranges whose end points are not exactly representable / where lower + 1.0 * (upper - lower) rounds above upper
        arb_cases.append([V('less_or_equal', '-1e-3', f32_round(-1e-3) if t == 'f32' else -1e-3, 'lit'), V('greater', '-2.25', -2.25, 'lit')])
        arb_cases.append([V('greater_or_equal', '0.1', f32_round(0.1) if t == 'f32' else 0.1, 'lit'), V('less_or_equal', '0.7', f32_round(0.7) if t == 'f32' else 0.7, 'lit')])
        arb_cases.append([V('greater_or_equal', '-123456.7', f32_round(-123456.7) if t == 'f32' else -123456.7, 'lit'), V('less_or_equal', '0.3', f32_round(0.3) if t == 'f32' else 0.3, 'lit')])
        # one-value and few-ULP ranges on values that are not dyadic: any scaling whose rounding leaves [lower, upper] shows here
        rr = (lambda x: f32_round(x)) if t == 'f32' else (lambda x: x)
        arb_cases.append([V('greater_or_equal', '0.1', rr(0.1), 'lit'), V('less_or_equal', '0.1', rr(0.1), 'lit')])
        arb_cases.append([V('greater_or_equal', '-0.3', rr(-0.3), 'lit'), V('less_or_equal', '-0.3', rr(-0.3), 'lit')])
        if t == 'f64':
            arb_cases.append([V('greater_or_equal', '36.6', 36.6, 'lit'), V('less_or_equal', '36.60000000000001', 36.60000000000001, 'lit')])
        else:
            arb_cases.append([V('greater_or_equal', '36.6', rr(36.6), 'lit'), V('less_or_equal', '36.600006', rr(36.600006), 'lit')])
        # two-sided with an *exclusive* upper bound whose scaling overshoots by an ulp or more at t = 1
        arb_cases.append([V('greater_or_equal', '-300.1', rr(-300.1), 'lit'), V('less', '-20.7', rr(-20.7), 'lit')])
        arb_cases.append([V('greater', '-20384.82', rr(-20384.82), 'lit'), V('less', '8338.08', rr(8338.08), 'lit')])
        arb_cases.append([V('less', '10.4', rr(10.4), 'lit'), V('greater_or_equal', '-750.0', -750.0, 'lit'), V('finite')])
        # two-sided with an infinite end point: the scaling `lower + t * (upper - lower)` has an infinite range
        arb_cases.append([V('greater_or_equal', '0.0', 0.0, 'lit'), V('less_or_equal', f'{t}::INFINITY', float('inf'), 'expr')])
        arb_cases.append([V('greater', f'{t}::NEG_INFINITY', float('-inf'), 'expr'), V('less', '0.0', 0.0, 'lit'), V('finite')])
        wide = ('3.0e38', f32_round(3.0e38)) if t == 'f32' else ('1.0e308', 1.0e308)
        arb_cases.append([V('finite'), V('greater_or_equal', '-' + wide[0], -wide[1], 'lit'), V('less_or_equal', wide[0], wide[1], 'lit')])
        for vs in arb_cases:
            full.append(decl('float', t, validators=vs, derives=['Debug', 'Arbitrary'], tags=['arb']))
        full.append(decl('float', t, derives=['Debug', 'Arbitrary'], tags=['arb']))
        # ordered subsets (C07)
        kinds = ['greater', 'greater_or_equal', 'less', 'less_or_equal', 'finite', 'predicate']
        bound = {'greater': ('2', 2.0), 'greater_or_equal': ('2', 2.0), 'less': ('90', 90.0), 'less_or_equal': ('90', 90.0)}
        subsets = []
        for r in (2, 3, 4):
            for combo in itertools.permutations(kinds, r):
                if 'greater' in combo and 'greater_or_equal' in combo:
                    continue
                if 'less' in combo and 'less_or_equal' in combo:
                    continue
                subsets.append(combo)
        if not thorough:
            subsets = _pick([c for c in subsets if len(c) == 2], 14, rnd) + _pick([c for c in subsets if len(c) > 2], 8, rnd)
        elif t == 'f32':
            subsets = [c for c in subsets if len(c) <= 3] + _pick([c for c in subsets if len(c) == 4], 60, rnd)
        else:
            subsets = _pick(subsets, 120, rnd)
        for combo in subsets:
            vs = []
            for k in combo:
                if k == 'predicate':
                    vs.append(V('predicate', '|x| *x != 4.0', form='closure'))
                elif k == 'finite':
                    vs.append(V('finite'))
                else:
                    vs.append(V(k, bound[k][0], bound[k][1], 'lit'))
            full.append(decl('float', t, validators=vs, derives=['Debug', 'TryFrom'], tags=['order']))

    # ---------------- strings -------------------------------------------------------
    san_lists = [[], ['trim'], ['lowercase'], ['uppercase'], ['trim', 'lowercase'], ['lowercase', 'trim'],
                 ['trim', 'uppercase'], ['uppercase', 'trim']]
    withs = [S('with', '|s| s.replace(\'a\', "b")', 'closure'), S('with', 'san_string', 'path', callee='san_string'),
             S('with', '|s: String| s.chars().rev().collect()', 'closure')]

    def slist(names):
        return [S(n) for n in names]

    base_vs = [V('not_empty'), V('len_char_min', '3', 3, 'lit'), V('len_char_max', '10', 10, 'lit')]
    for sl in san_lists:
        full.append(decl('string', 'String', sanitizers=slist(sl), derives=full_derives('string', False, with_default=True),
                         default={'text': '"  Hello  "', 'value': '  Hello  '}, tags=['sanitize']))
        full.append(decl('string', 'String', sanitizers=slist(sl), validators=list(base_vs),
                         derives=full_derives('string', True), tags=['sanitize']))
    for sl in san_lists[:5]:
        full.append(decl('string', 'String', sanitizers=slist(sl), derives=['Debug', 'TryFrom', 'FromStr', 'Deserialize', 'Serialize'],
                         tags=['sanitize', 'infallible']))
    for i, w in enumerate(withs):
        full.append(decl('string', 'String', sanitizers=[S('trim'), w], validators=[V('not_empty')],
                         derives=full_derives('string', True, arbitrary_ok=False), tags=['sanitize']))
        full.append(decl('string', 'String', sanitizers=[w, S('lowercase')], derives=full_derives('string', False, arbitrary_ok=False), tags=['sanitize']))
        full.append(decl('string', 'String', sanitizers=[S('trim'), w, S('uppercase')], validators=[V('len_char_max', 'MAXLEN', MAXLEN, 'expr')],
                         derives=['Debug', 'TryFrom', 'FromStr', 'Deserialize'], tags=['sanitize']))
    for (text, value, form) in len_spellings(tier):
        for kind in ('len_char_min', 'len_char_max'):
            full.append(decl('string', 'String', validators=[V(kind, text, value, form)],
                             derives=['Debug', 'TryFrom', 'FromStr', 'Display'] + (['Arbitrary'] if form in ('lit', 'expr') else []),
                             tags=['spelling']))
    skinds = ['not_empty', 'len_char_min', 'len_char_max', 'predicate', 'regex']

    def sval(k, alt=0):
        if k == 'not_empty':
            return V('not_empty')
        if k == 'len_char_min':
            return V('len_char_min', '3', 3, 'lit')
        if k == 'len_char_max':
            return V('len_char_max', '10', 10, 'lit')
        if k == 'predicate':
            return [V('predicate', '|s| s.len() != 4', form='closure'), V('predicate', 'pred_str', form='path', callee='pred_str')][alt % 2]
        if k == 'regex':
            return [V('regex', '"^[a-z]+$"', form='lit', pattern='^[a-z]+$'), V('regex', 'RE_STATIC', form='path', callee='RE_STATIC')][alt % 2]
    subsets = []
    for r in range(1, 6):
        subsets += list(itertools.permutations(skinds, r))
    if not thorough:
        subsets = [c for c in subsets if len(c) <= 2] + _pick([c for c in subsets if len(c) == 3], 10, rnd) + \
            _pick([c for c in subsets if len(c) == 5], 4, rnd)
    for i, combo in enumerate(subsets):
        vs = [sval(k, i) for k in combo]
        full.append(decl('string', 'String', sanitizers=slist(san_lists[i % len(san_lists)]) if len(combo) > 1 else [],
                         validators=vs, derives=['Debug', 'TryFrom', 'FromStr'], tags=['order']))
    full.append(decl('string', 'String', custom={'with_text': 'check_str', 'form': 'path', 'callee': 'check_str', 'error': 'MyErr'},
                     sanitizers=slist(['trim']), derives=full_derives('string', True, arbitrary_ok=False), tags=['custom']))
    full.append(decl('string', 'String', custom={'with_text': 'check_str', 'form': 'path', 'callee': 'check_str', 'error': 'MyErr', 'error_first': True},
                     derives=['Debug', 'TryFrom', 'FromStr', 'Deserialize'], tags=['custom']))
    full.append(decl('string', 'String', validators=[V('not_empty')], derives=['Debug', 'Default', 'TryFrom'],
                     default={'text': '""', 'value': ''}, tags=['default']))
    full.append(decl('string', 'String', sanitizers=slist(['trim']), validators=[V('not_empty')], derives=['Debug', 'Default'],
                     default={'text': '"  x "', 'value': '  x '}, tags=['default']))
    full.append(decl('string', 'String', validators=[V('len_char_max', '5', 5, 'lit')], new_unchecked=True, derives=['Debug'], tags=['unchecked']))
    # Arbitrary string generators (C09)
    arb_str = [
        ([], [V('len_char_min', '2', 2, 'lit'), V('len_char_max', '6', 6, 'lit')]),
        (['trim'], [V('not_empty'), V('len_char_max', '8', 8, 'lit')]),
        (['trim'], [V('len_char_min', '5', 5, 'lit')]),
        ([], [V('not_empty')]),
        ([], [V('len_char_max', '0', 0, 'lit')]),
        (['trim'], []),
        ([], []),
    ]
    for sl, vs in arb_str:
        full.append(decl('string', 'String', sanitizers=slist(sl), validators=vs, derives=['Debug', 'Arbitrary'], tags=['arb']))

    # ---------------- other ("any") types --------------------------------------------
    any_inners = [
        ('Vec<T>', '<T>', ['Debug', 'Clone', 'PartialEq', 'AsRef', 'Deref', 'Into', 'IntoIterator', 'Serialize', 'Deserialize', 'Borrow'],
         '|v| !v.is_empty()', '|mut v| { v.truncate(3); v }'),
        ('Point', '', ['Debug', 'Clone', 'Copy', 'PartialEq', 'Eq', 'PartialOrd', 'Ord', 'Hash', 'AsRef', 'Deref', 'Into', 'Borrow', 'Display', 'FromStr'],
         '|p| p.x != p.y', '|p| Point { x: p.x.abs(), y: p.y }'),
        ("Cow<'a, str>", "<'a>", ['Debug', 'Clone', 'PartialEq', 'Eq', 'PartialOrd', 'Ord', 'Hash', 'AsRef', 'Deref', 'Into', 'Display'],
         '|s| !s.is_empty()', None),
        ('Vec<i32>', '', ['Debug', 'Clone', 'PartialEq', 'Eq', 'Hash', 'AsRef', 'Deref', 'Into', 'IntoIterator', 'Serialize', 'Deserialize', 'Arbitrary'],
         '|v| v.len() < 5', '|mut v| { v.sort(); v }'),
    ]
    any_inners += [
        ('Vec<T>', '<T: Clone + PartialEq>', ['Debug', 'Clone', 'PartialEq', 'AsRef', 'Deref', 'Into', 'IntoIterator', 'Borrow'], '|v| !v.is_empty()', '|mut v| { v.truncate(3); v }'),
    ]
    any_inners += [
        # inner types whose own equality is not reflexive
        ('Vec<f64>', '', ['Debug', 'Clone', 'PartialEq', 'PartialOrd', 'AsRef', 'Deref', 'Into', 'IntoIterator'], '|v| v.len() < 9', None),
        ('Option<f32>', '', ['Debug', 'Clone', 'Copy', 'PartialEq', 'PartialOrd', 'AsRef', 'Into'], None, None),
        # inner types a template might be tempted to special-case
        ('Vec<u8>', '', ['Debug', 'Clone', 'PartialEq', 'Eq', 'Hash', 'AsRef', 'Deref', 'Into', 'IntoIterator', 'Serialize', 'Deserialize', 'Arbitrary'],
         '|v| v.len() < 9', None),
        ('bool', '', ['Debug', 'Clone', 'Copy', 'PartialEq', 'Eq', 'Hash', 'AsRef', 'Into', 'Display', 'FromStr', 'Serialize', 'Deserialize', 'Arbitrary'], None, None),
        ('char', '', ['Debug', 'Clone', 'Copy', 'PartialEq', 'Eq', 'PartialOrd', 'Ord', 'Hash', 'AsRef', 'Into', 'Display', 'FromStr', 'Serialize', 'Deserialize'],
         '|c| c.is_alphabetic()', None),
        ('Box<str>', '', ['Debug', 'Clone', 'PartialEq', 'Eq', 'Hash', 'AsRef', 'Deref', 'Into', 'Display', 'Serialize', 'Deserialize'], '|s| !s.is_empty()', None),
        ("&'a str", "<'a>", ['Debug', 'Clone', 'Copy', 'PartialEq', 'Eq', 'PartialOrd', 'Ord', 'Hash', 'AsRef', 'Deref', 'Into', 'Display'], '|s| !s.is_empty()', None),
    ]
    any_inners += [
        # ... in a serde template: options, tuples, arrays, maps, unit
        ('Option<String>', '', ['Debug', 'Clone', 'PartialEq', 'Eq', 'Hash', 'AsRef', 'Into', 'Serialize', 'Deserialize', 'Arbitrary'],
         '|o| o.is_some()', '|o| o.map(|s| s.trim().to_string())'),
        ('::core::option::Option<u32>', '', ['Debug', 'Clone', 'Copy', 'PartialEq', 'AsRef', 'Into', 'Serialize', 'Deserialize'], '|o| *o != Some(0)', None),
        ('(i32, String)', '', ['Debug', 'Clone', 'PartialEq', 'AsRef', 'Into', 'Serialize', 'Deserialize'], '|t| t.0 >= 0', None),
        ('[u8; 4]', '', ['Debug', 'Clone', 'Copy', 'PartialEq', 'Eq', 'Hash', 'AsRef', 'Deref', 'Into', 'IntoIterator', 'Serialize', 'Deserialize'], '|a| a[0] != 0', None),
        ('std::collections::BTreeMap<String, i32>', '', ['Debug', 'Clone', 'PartialEq', 'AsRef', 'Deref', 'Into', 'IntoIterator', 'Serialize', 'Deserialize'],
         '|m| m.len() < 4', None),
        ('()', '', ['Debug', 'Clone', 'Copy', 'PartialEq', 'Into', 'Serialize', 'Deserialize'], None, None),
    ]
    if thorough:
        any_inners += [
            ('Option<T>', '<T: Clone>', ['Debug', 'Clone', 'PartialEq', 'AsRef', 'Deref', 'Into'], '|o| o.is_some()', None),
            ('[u8; 4]', '', ['Debug', 'Clone', 'Copy', 'PartialEq', 'Eq', 'Hash', 'AsRef', 'Deref', 'Into', 'IntoIterator'], '|a| a[0] != 0', None),
            ('(A, B)', '<A, B>', ['Debug', 'Clone', 'PartialEq', 'AsRef', 'Into'], None, None),
        ]
    for inner, g, ds, pred, san in any_inners:
        no_arb = [x for x in ds if x != 'Arbitrary']
        full.append(decl('any', inner, generics=g, derives=ds + ['From'], tags=['bare']))
        if pred:
            full.append(decl('any', inner, generics=g, validators=[V('predicate', pred, form='closure')],
                             derives=no_arb + ['TryFrom'], tags=['predicate']))
        if san:
            full.append(decl('any', inner, generics=g, sanitizers=[S('with', san, 'closure')], derives=ds + ['From'], tags=['sanitize']))
            if pred:
                full.append(decl('any', inner, generics=g, sanitizers=[S('with', san, 'closure')],
                                 validators=[V('predicate', pred, form='closure')], derives=no_arb + ['TryFrom'], tags=['sanitize']))
    full.append(decl('any', 'Point', sanitizers=[S('with', 'san_point', 'path', callee='san_point')],
                     derives=['Debug', 'TryFrom', 'FromStr'], tags=['sanitize', 'infallible']))
    full.append(decl('any', 'Vec<T>', generics='<T>', sanitizers=[S('with', '|mut v| { v.truncate(3); v }', 'closure')],
                     derives=['Debug', 'TryFrom', 'Deserialize', 'Serialize'], tags=['sanitize', 'infallible']))
    full.append(decl('any', 'Point', sanitizers=[S('with', 'san_point', 'path', callee='san_point')],
                     validators=[V('predicate', 'pred_point', form='path', callee='pred_point')],
                     derives=['Debug', 'TryFrom', 'FromStr', 'Default'],
                     default={'text': 'Point { x: 1, y: 2 }', 'value': None}, tags=['default']))
    full.append(decl('any', 'Point', custom={'with_text': 'check_point', 'form': 'path', 'callee': 'check_point', 'error': 'MyErr'},
                     derives=['Debug', 'TryFrom', 'FromStr', 'Clone', 'Copy'], tags=['custom']))
    full.append(decl('any', 'Point', derives=['Debug', 'From', 'Default', 'FromStr'], default={'text': 'Point::default()', 'value': None},
                     const_fn=False, tags=['default']))
    for cf in (False, True):
        full.append(decl('any', 'Point', validators=[V('predicate', 'pred_point_c', form='path', callee='pred_point_c')],
                         derives=['Debug'], const_fn=cf, tags=['consteq'], note='twin:P'))
    full.append(decl('any', 'Point', new_unchecked=True, validators=[V('predicate', 'pred_point', form='path', callee='pred_point')],
                     derives=['Debug'], tags=['unchecked']))
    # const_fn next to a sanitizer *and* validators (the sanitizer has to be a const fn; inner types are Copy, so a template
    # that validates the raw value instead of the sanitized one still compiles)
    for cf in (False, True):
        full.append(decl('int', 'u32', sanitizers=[S('with', 'san_c_u32', 'path', callee='san_c_u32')],
                         validators=[V('greater', '0', 0, 'lit'), V('less_or_equal', '1000', 1000, 'lit')],
                         derives=['Debug', 'TryFrom', 'FromStr'], const_fn=cf, tags=['consteq', 'const-sanitize'], note='twin:CS1'))
        full.append(decl('int', 'i32', sanitizers=[S('with', 'san_c_i32', 'path', callee='san_c_i32')],
                         validators=[V('predicate', '|n| *n != 0', form='closure')] if not cf else [V('greater_or_equal', '-10', -10, 'lit')],
                         derives=['Debug', 'TryFrom'], const_fn=cf, tags=['const-sanitize']))
        full.append(decl('float', 'f64', sanitizers=[S('with', 'san_c_f64', 'path', callee='san_c_f64')],
                         validators=[V('finite'), V('greater', '0.0', 0.0, 'lit')],
                         derives=['Debug', 'TryFrom'], const_fn=cf, tags=['consteq', 'const-sanitize'], note='twin:CS2'))
        full.append(decl('any', 'Point', sanitizers=[S('with', 'san_c_point', 'path', callee='san_c_point')],
                         validators=[V('predicate', 'pred_point_c', form='path', callee='pred_point_c')],
                         derives=['Debug', 'TryFrom'], const_fn=cf, tags=['consteq', 'const-sanitize'], note='twin:CS3'))
    # shared-reference inner types (Copy) with a sanitizer and a predicate
    full.append(decl('any', "&'a str", generics="<'a>", sanitizers=[S('with', 'trim_ref', 'path', callee='trim_ref')],
                     validators=[V('predicate', '|s| !s.is_empty()', form='closure')],
                     derives=['Debug', 'Clone', 'Copy', 'PartialEq', 'AsRef', 'Deref', 'Into', 'TryFrom', 'Display'], tags=['ref-inner']))
    full.append(decl('any', "&'a [u8]", generics="<'a>", sanitizers=[S('with', 'first3', 'path', callee='first3')],
                     validators=[V('predicate', '|s| !s.is_empty()', form='closure')],
                     derives=['Debug', 'Clone', 'Copy', 'PartialEq', 'AsRef', 'Into', 'TryFrom'], tags=['ref-inner']))
    full.append(decl('any', "&'a str", generics="<'a>", sanitizers=[S('with', '|s| s.trim()', 'closure')], derives=['Debug', 'Clone', 'Copy', 'From', 'Into'],
                     tags=['ref-inner']))

    # ---------------- every derivable trait on its own (with its prerequisites), per family ------------
    req1 = {'Copy': ['Clone'], 'Eq': ['PartialEq'], 'Ord': ['PartialEq', 'Eq', 'PartialOrd'], 'PartialOrd': ['PartialEq']}
    single_sets = {
        'int': ('i64', ['Debug', 'Clone', 'Copy', 'PartialEq', 'Eq', 'PartialOrd', 'Ord', 'Hash', 'AsRef', 'Deref', 'Borrow', 'Into', 'Display', 'FromStr', 'TryFrom',
                        'Serialize', 'Deserialize', 'Arbitrary'], [V('greater_or_equal', '1', 1, 'lit'), V('less', '1_000', 1000, 'lit')]),
        'float': ('f32', ['Debug', 'Clone', 'Copy', 'PartialEq', 'Eq', 'PartialOrd', 'Ord', 'AsRef', 'Deref', 'Borrow', 'Into', 'Display', 'FromStr', 'TryFrom',
                          'Serialize', 'Deserialize', 'Arbitrary'], [V('finite'), V('greater_or_equal', '1', 1.0, 'lit'), V('less_or_equal', '1e3', 1000.0, 'lit')]),
        'string': ('String', ['Debug', 'Clone', 'PartialEq', 'Eq', 'PartialOrd', 'Ord', 'Hash', 'AsRef', 'Deref', 'Borrow', 'Into', 'Display', 'FromStr', 'TryFrom',
                              'Serialize', 'Deserialize', 'Arbitrary'], [V('not_empty'), V('len_char_max', '12', 12, 'lit')]),
    }
    for fam, (inner, traits, vs) in single_sets.items():
        for tr in traits:
            ds = [x for x in req1.get(tr, [])] + [tr]
            full.append(decl(fam, inner, validators=vs, derives=ds, tags=['single-trait']))
            if tr != 'TryFrom':
                keep = [] if not (fam == 'float' and tr in ('Eq', 'Ord')) else None
                if keep is not None:
                    full.append(decl(fam, inner, sanitizers=[S('trim')] if fam == 'string' else [S('with', '|x| x', 'closure')], derives=ds,
                                     tags=['single-trait']))
    # ---------------- generic newtype directly over the type parameter --------------------------------
    # (Into / TryFrom cannot be implemented for a newtype directly over `T`: orphan rule E0210, blanket TryFrom E0119)
    gen_ds = ['Debug', 'Clone', 'PartialEq', 'Eq', 'PartialOrd', 'Ord', 'Hash', 'AsRef', 'Deref', 'Borrow', 'Display', 'FromStr', 'Serialize', 'Deserialize']
    bnd = '<T: core::fmt::Debug + Clone + Ord + core::hash::Hash + core::fmt::Display + core::str::FromStr + Default>'
    full.append(decl('any', 'T', generics=bnd, derives=gen_ds + ['From', 'Default'], default={'text': 'T::default()', 'value': None}, tags=['generic-param']))
    full.append(decl('any', 'T', generics=bnd, validators=[V('predicate', '|v| *v != T::default()', form='closure')], derives=gen_ds, tags=['generic-param']))
    full.append(decl('any', 'T', generics=bnd, sanitizers=[S('with', '|v: T| v.clone().max(v)', 'closure')], validators=[V('predicate', '|v| *v != T::default()', form='closure')],
                     derives=gen_ds, tags=['generic-param']))
    full.append(decl('any', '(A, B)', generics='<A: Clone + PartialEq, B: Clone + PartialEq>', validators=[V('predicate', '|p| p.0 == p.0', form='closure')],
                     derives=['Clone', 'PartialEq', 'AsRef', 'Deref', 'Into', 'TryFrom', 'Borrow'], tags=['generic-param']))

    # ---------------- layouts (C02) ---------------------------------------------------
    orders = [['derive', 'validate', 'sanitize'], ['validate', 'derive', 'sanitize', 'default'], ['default', 'sanitize', 'derive', 'validate'],
              ['const_fn', 'validate', 'derive'], ['new_unchecked', 'derive', 'validate', 'const_fn']]
    for i, order in enumerate(orders):
        full.append(decl('int', 'i32', sanitizers=[S('with', '|x| x / 2', 'closure')] if 'sanitize' in order else [],
                         validators=[V('greater_or_equal', '1', 1, 'lit'), V('less', 'K_I32 * 2', K * 2, 'expr')],
                         derives=['Debug', 'TryFrom'] + (['Default'] if 'default' in order else []),
                         default={'text': '3', 'value': 3} if 'default' in order else None,
                         const_fn='const_fn' in order and 'sanitize' not in order, new_unchecked='new_unchecked' in order,
                         layout={'order': order, 'trailing': i % 2 == 0, 'trailing_outer': i % 2 == 1}, tags=['layout']))
        full.append(decl('string', 'String', sanitizers=[S('trim'), S('lowercase')] if 'sanitize' in order else [],
                         validators=[V('not_empty'), V('len_char_max', 'MAXLEN', MAXLEN, 'expr')],
                         derives=['Debug', 'TryFrom'] + (['Default'] if 'default' in order else []),
                         default={'text': '"abc"', 'value': 'abc'} if 'default' in order else None,
                         new_unchecked='new_unchecked' in order,
                         layout={'order': [o for o in order if o != 'const_fn'], 'trailing': i % 2 == 1, 'trailing_outer': i % 2 == 0}, tags=['layout']))
        full.append(decl('float', 'f64', sanitizers=[S('with', '|x| x / 2.0', 'closure')] if 'sanitize' in order else [],
                         validators=[V('finite'), V('less', 'KF_F64 * 2.0', KF * 2, 'expr')],
                         derives=['Debug', 'TryFrom'] + (['Default'] if 'default' in order else []),
                         default={'text': '0.5', 'value': 0.5} if 'default' in order else None,
                         const_fn='const_fn' in order and 'sanitize' not in order, new_unchecked='new_unchecked' in order,
                         layout={'order': order, 'trailing': True, 'trailing_outer': True}, tags=['layout']))

    # ---------------- repeated blocks (C02): Sigma = rejected, or every written rule enforced --------
    for adjacent in (False, True):
        full.append(decl('int', 'i32', validators=[V('greater', '5', 5, 'lit'), V('less', '30', 30, 'lit')], derives=['Debug', 'TryFrom'],
                         split={'validate': 1, 'adjacent': adjacent}, expect='either', tags=['repeat']))
        full.append(decl('float', 'f64', validators=[V('finite'), V('less', '30', 30.0, 'lit')], derives=['Debug', 'TryFrom'],
                         split={'validate': 1, 'adjacent': adjacent}, expect='either', tags=['repeat']))
        full.append(decl('string', 'String', sanitizers=[S('trim'), S('lowercase')], validators=[V('not_empty'), V('len_char_max', '8', 8, 'lit')],
                         derives=['Debug', 'TryFrom'], split={'sanitize': 1, 'validate': 1, 'adjacent': adjacent}, expect='either', tags=['repeat']))
        full.append(decl('int', 'u8', sanitizers=[S('with', '|x| x / 2', 'closure'), S('with', '|x| x + 1', 'closure')], derives=['Debug', 'From'],
                         split={'sanitize': 1, 'adjacent': adjacent}, expect='either', tags=['repeat']))
        full.append(decl('int', 'i64', validators=[V('less', '30', 30, 'lit')], derives=['Debug', 'TryFrom', 'Clone', 'PartialEq'],
                         split={'derive': 2, 'adjacent': adjacent}, expect='either', tags=['repeat']))
        full.append(decl('any', 'Point', validators=[V('predicate', 'pred_point', form='path', callee='pred_point')],
                         sanitizers=[S('with', 'san_point', 'path', callee='san_point')], derives=['Debug', 'TryFrom', 'Clone'],
                         split={'derive': 1, 'adjacent': adjacent}, expect='either', tags=['repeat']))

    # ---------------- bounds that start with a literal and continue with an operator -----------------
    # the pinned tree refuses them ("expected `,`"); a tree that accepts them must enforce the value of the whole expression
    for fam, t, kind, text, value in (('int', 'i32', 'less', '1 << 4', 16), ('int', 'u8', 'less_or_equal', '10 - 1', 9), ('int', 'i64', 'greater', '2 * 8', 16),
                                      ('float', 'f64', 'less', '2.5 * 2.0', 5.0), ('string', 'String', 'len_char_max', '2 * 8', 16),
                                      ('int', 'i32', 'greater_or_equal', '5 as i32', 5)):
        full.append(decl(fam, t, validators=[V(kind, text, value, 'expr')], derives=['Debug', 'TryFrom'] + (['Arbitrary'] if fam == 'int' else []),
                         expect='either', tags=['lit-then-op']))

    # ---------------- visibility -------------------------------------------------------
    for vis in ('', 'pub(crate)', 'pub'):
        full.append(decl('int', 'i32', validators=[V('less', '10', 10, 'lit')], derives=['Debug', 'FromStr'], vis=vis, tags=['vis']))
        full.append(decl('string', 'String', validators=[V('not_empty')], derives=['Debug'], vis=vis, tags=['vis']))

    # ---------------- nostd crate (C15) -------------------------------------------------
    for t in (['i32', 'u8', 'u64', 'i128'] if not thorough else INT_TYPES_ALL):
        U = t.upper()
        nostd.append(decl('int', t, sanitizers=[S('with', '|x| x / 2', 'closure')],
                          validators=[V('greater_or_equal', '1', 1, 'lit'), V('less', f'K_{U} * 2', K * 2, 'expr')],
                          derives=[d for d in full_derives('int', True, arbitrary_ok=False)] + ['Default'],
                          default={'text': '4', 'value': 4}, tags=['nostd']))
        nostd.append(decl('int', t, validators=[V('greater_or_equal', '1', 1, 'lit'), V('less_or_equal', '9', 9, 'lit')],
                          derives=full_derives('int', True), tags=['nostd']))
        nostd.append(decl('int', t, derives=full_derives('int', False), const_fn=False, tags=['nostd']))
        nostd.append(decl('int', t, validators=[V('less', '10', 10, 'lit')], const_fn=True, derives=['Debug', 'Clone', 'Copy'], tags=['nostd']))
        nostd.append(decl('int', t, custom={'with_text': f'check_{t}', 'form': 'path', 'callee': f'check_{t}', 'error': 'MyErr'},
                          derives=full_derives('int', True, arbitrary_ok=False), tags=['nostd']))
    for t in FLOAT_TYPES:
        U = t.upper()
        nostd.append(decl('float', t, validators=[V('finite'), V('greater_or_equal', '0', 0.0, 'lit'), V('less_or_equal', '1', 1.0, 'lit')],
                          derives=full_derives('float', True, has_finite=True, with_default=True), default={'text': '0.5', 'value': 0.5}, tags=['nostd']))
        nostd.append(decl('float', t, derives=full_derives('float', False), tags=['nostd']))
        nostd.append(decl('float', t, sanitizers=[S('with', f'san_{t}', 'path', callee=f'san_{t}')], validators=[V('finite')],
                          derives=full_derives('float', True, has_finite=True, arbitrary_ok=False), tags=['nostd']))
        nostd.append(decl('float', t, custom={'with_text': f'check_{t}', 'form': 'path', 'callee': f'check_{t}', 'error': 'MyErr'},
                          const_fn=False, derives=full_derives('float', True, arbitrary_ok=False), tags=['nostd']))
    # every derivable trait alone (with what it requires), with and without validation
    singles = {
        'int': ['Debug', 'Clone', 'Clone, Copy', 'PartialEq', 'PartialEq, Eq', 'PartialEq, PartialOrd', 'PartialEq, Eq, PartialOrd, Ord', 'Hash', 'AsRef', 'Deref',
                'Borrow', 'Into', 'Display', 'FromStr', 'TryFrom', 'Serialize', 'Deserialize', 'Arbitrary', 'Default'],
        'float': ['Debug', 'Clone', 'Clone, Copy', 'PartialEq', 'PartialEq, PartialOrd', 'AsRef', 'Deref', 'Borrow', 'Into', 'Display', 'FromStr', 'TryFrom',
                  'Serialize', 'Deserialize', 'Arbitrary', 'Default'],
    }
    for fam, t, vtxt in (('int', 'i32', [V('greater_or_equal', '1', 1, 'lit'), V('less_or_equal', 'K_I32 * 2', K * 2, 'expr')]),
                         ('float', 'f64', [V('greater_or_equal', '0.5', 0.5, 'lit'), V('less_or_equal', 'KF_F64 * 2.0', KF * 2, 'expr')])):
        for ds in singles[fam]:
            dl = [x.strip() for x in ds.split(',')]
            dflt = {'text': '2' if fam == 'int' else '1.5', 'value': 2 if fam == 'int' else 1.5} if 'Default' in dl else None
            nostd.append(decl(fam, t, validators=vtxt, derives=dl, default=dflt, tags=['nostd', 'single-trait']))
            if 'TryFrom' not in dl:
                nostd.append(decl(fam, t, derives=dl, default=dflt, tags=['nostd', 'single-trait']))
    nostd.append(decl('float', 'f32', validators=[V('finite')], derives=['Debug', 'PartialEq', 'Eq', 'PartialOrd', 'Ord'], tags=['nostd']))
    # user constants whose names a template could also introduce, in the no_std crate as well
    nostd.append(decl('int', 'i32', validators=[V('greater_or_equal', 'MIN', -100, 'expr'), V('less', 'MAX', 100, 'expr')],
                      derives=['Debug', 'TryFrom', 'Arbitrary', 'Display', 'Default', 'FromStr', 'Serialize', 'Deserialize'],
                      default={'text': 'MAX - 1', 'value': 99}, tags=['name-capture', 'nostd']))
    nostd.append(decl('any', 'Point', derives=['Debug', 'Clone', 'Copy', 'PartialEq', 'Eq', 'PartialOrd', 'Ord', 'Hash', 'AsRef', 'Deref', 'Into', 'Borrow', 'Display', 'FromStr', 'From', 'Default'],
                      default={'text': 'Point { x: 1, y: 2 }', 'value': None}, tags=['nostd']))
    nostd.append(decl('any', 'Point', validators=[V('predicate', 'pred_point', form='path', callee='pred_point')],
                      sanitizers=[S('with', 'san_point', 'path', callee='san_point')],
                      derives=['Debug', 'Clone', 'Copy', 'PartialEq', 'AsRef', 'Deref', 'Into', 'Borrow', 'Display', 'FromStr', 'TryFrom'], tags=['nostd']))
    nostd.append(decl('any', 'alloc::vec::Vec<T>', generics='<T>', validators=[V('predicate', '|v| !v.is_empty()', form='closure')],
                      derives=['Debug', 'Clone', 'PartialEq', 'AsRef', 'Deref', 'Into', 'IntoIterator', 'TryFrom', 'Serialize', 'Deserialize'], tags=['nostd']))
    nostd.append(decl('any', 'alloc::vec::Vec<u8>', derives=['Debug', 'Clone', 'From', 'IntoIterator', 'Arbitrary', 'Serialize', 'Deserialize'], tags=['nostd']))
    # "other" inner types that merely mention str / String
    nostd.append(decl('any', "&'a str", generics="<'a>", validators=[V('predicate', '|s| !s.is_empty()', form='closure')],
                      derives=['Debug', 'Clone', 'Copy', 'PartialEq', 'Eq', 'AsRef', 'Deref', 'Into', 'Display', 'TryFrom'], tags=['nostd']))
    nostd.append(decl('any', "Option<&'static str>", derives=['Debug', 'Clone', 'Copy', 'PartialEq', 'AsRef', 'Into', 'From'], tags=['nostd']))
    nostd.append(decl('any', "alloc::borrow::Cow<'a, str>", generics="<'a>", derives=['Debug', 'Clone', 'PartialEq', 'AsRef', 'Deref', 'Into', 'From'], tags=['nostd']))
    nostd.append(decl('any', 'alloc::vec::Vec<alloc::string::String>', sanitizers=[S('with', '|mut v| { v.sort(); v }', 'closure')],
                      derives=['Debug', 'Clone', 'PartialEq', 'AsRef', 'Deref', 'Into', 'From'], tags=['nostd']))
    nostd.append(decl('any', 'Point', custom={'with_text': 'check_point', 'form': 'path', 'callee': 'check_point', 'error': 'MyErr'},
                      derives=['Debug', 'TryFrom', 'FromStr'], tags=['nostd']))

    full.append(decl('any', 'Temp', validators=[V('predicate', 'pred_temp', form='path', callee='pred_temp')], derives=['Debug', 'Clone', 'Copy', 'PartialEq', 'FromStr', 'TryFrom', 'Display'],
                     tags=['inherent-from-str']))
    full.append(decl('any', 'Temp', derives=['Debug', 'FromStr', 'From', 'Display', 'AsRef'], tags=['inherent-from-str']))

    tricky_ds = ['Debug', 'Clone', 'PartialEq', 'Eq', 'PartialOrd', 'Ord', 'Hash', 'AsRef', 'Deref', 'Borrow', 'Into', 'Display', 'FromStr', 'Serialize', 'Deserialize']
    full.append(decl('any', 'Tricky', validators=[V('predicate', 'pred_tricky', form='path', callee='pred_tricky')], derives=tricky_ds + ['TryFrom'], tags=['inherent-shadowing']))
    full.append(decl('any', 'Tricky', derives=tricky_ds + ['From', 'Arbitrary', 'Default'], default={'text': 'Tricky(7)', 'value': None}, tags=['inherent-shadowing']))

    # schemars08: a transparent derive next to the generated ones
    full.append(decl('int', 'i32', validators=[V('greater_or_equal', '1', 1, 'lit'), V('less', '100', 100, 'lit')],
                     derives=full_derives('int', True) + ['JsonSchema'], tags=['schemars']))
    full.append(decl('int', 'u8', derives=full_derives('int', False) + ['JsonSchema'], tags=['schemars']))
    full.append(decl('float', 'f64', validators=[V('finite'), V('greater', '0.0', 0.0, 'lit')],
                     derives=full_derives('float', True, has_finite=True) + ['JsonSchema'], tags=['schemars']))
    full.append(decl('string', 'String', sanitizers=[S('trim'), S('lowercase')], validators=[V('not_empty'), V('len_char_max', '20', 20, 'lit')],
                     derives=full_derives('string', True) + ['JsonSchema'], tags=['schemars']))
    full.append(decl('string', 'String', derives=['Debug', 'JsonSchema', 'From', 'Serialize', 'Deserialize'], tags=['schemars']))

    # validators that every value of the inner type satisfies (a bound at the edge of the domain): still declared, so still a
    # variant, a check and a message
    triv = [
        decl('string', 'String', validators=[V('len_char_min', '0', 0, 'lit'), V('len_char_max', '5', 5, 'lit')], derives=['Debug', 'TryFrom', 'FromStr'], tags=['trivial']),
        decl('string', 'String', validators=[V('not_empty'), V('len_char_min', '0', 0, 'lit')], derives=['Debug', 'TryFrom'], tags=['trivial']),
        decl('string', 'String', validators=[V('len_char_min', '0', 0, 'lit')], derives=['Debug', 'TryFrom', 'Deserialize'], tags=['trivial']),
        decl('string', 'String', sanitizers=[S('trim')], validators=[V('len_char_max', '3', 3, 'lit'), V('len_char_min', '00', 0, 'lit')], derives=['Debug', 'TryFrom'], tags=['trivial']),
        decl('int', 'u8', validators=[V('greater_or_equal', '0', 0, 'lit'), V('less', '10', 10, 'lit')], derives=['Debug', 'TryFrom', 'Arbitrary'], tags=['trivial']),
        decl('int', 'u8', validators=[V('greater', '3', 3, 'lit'), V('less_or_equal', '255', 255, 'lit')], derives=['Debug', 'TryFrom', 'Arbitrary'], tags=['trivial']),
        decl('int', 'i8', validators=[V('greater_or_equal', '-128', -128, 'lit'), V('less_or_equal', '127', 127, 'lit')], derives=['Debug', 'TryFrom', 'Arbitrary'], tags=['trivial']),
        decl('int', 'u16', validators=[V('greater_or_equal', '0', 0, 'lit')], derives=['Debug', 'TryFrom', 'FromStr'], tags=['trivial']),
        # ... and the exclusive neighbours, which exclude exactly one value
        decl('int', 'u8', validators=[V('greater', '0', 0, 'lit')], derives=['Debug', 'TryFrom', 'Arbitrary'], tags=['trivial']),
        decl('int', 'u8', validators=[V('less', '255', 255, 'lit')], derives=['Debug', 'TryFrom', 'Arbitrary'], tags=['trivial']),
        decl('int', 'i8', validators=[V('greater', '-128', -128, 'lit'), V('less', '127', 127, 'lit')], derives=['Debug', 'TryFrom', 'Arbitrary'], tags=['trivial']),
        decl('int', 'u64', validators=[V('less', '18_446_744_073_709_551_615', 18446744073709551615, 'lit')], derives=['Debug', 'TryFrom', 'Arbitrary'], tags=['trivial']),
        decl('int', 'i128', validators=[V('greater', '-170141183460469231731687303715884105728', -170141183460469231731687303715884105728, 'lit')],
             derives=['Debug', 'TryFrom', 'Arbitrary'], tags=['trivial']),
        decl('int', 'usize', validators=[V('greater', '0', 0, 'lit')], derives=['Debug', 'TryFrom'], tags=['trivial']),
        decl('int', 'i64', validators=[V('less_or_equal', '9223372036854775807', 9223372036854775807, 'lit'), V('greater', '0', 0, 'lit')], derives=['Debug', 'TryFrom'], tags=['trivial']),
        decl('float', 'f64', validators=[V('greater_or_equal', 'f64::NEG_INFINITY', float('-inf'), 'expr'), V('less', '1.0', 1.0, 'lit')], derives=['Debug', 'TryFrom'], tags=['trivial']),
        decl('float', 'f32', validators=[V('less_or_equal', 'f32::INFINITY', float('inf'), 'expr')], derives=['Debug', 'TryFrom'], tags=['trivial']),
    ]
    full += triv
    # less common forms of function-valued items, regex literals, attribute neighbours and generics
    def X(d, **kw):
        d.update(kw)
        return d
    full.append(decl('string', 'String', sanitizers=[S('with', "|mut s: String| { s.push('x'); s }", 'closure')], validators=[V('not_empty')],
                     derives=['Debug', 'TryFrom', 'FromStr'], tags=['forms']))
    full.append(decl('string', 'String', sanitizers=[S('trim'), S('with', 'helpers::san_h', 'path', callee='helpers::san_h'), S('lowercase')],
                     validators=[V('predicate', 'crate::helpers::pred_h', form='path', callee='helpers::pred_h'), V('len_char_max', '9', 9, 'lit')],
                     derives=['Debug', 'TryFrom', 'FromStr', 'Deserialize'], tags=['forms']))
    full.append(decl('string', 'String', validators=[V('predicate', '|s: &str| s.is_ascii()', form='closure'), V('not_empty')], derives=['Debug', 'TryFrom'], tags=['forms']))
    full.append(decl('string', 'String', validators=[V('len_char_max', '9', 9, 'lit'), V('predicate', 'self::pred_str', form='path', callee='pred_str')],
                     derives=['Debug', 'TryFrom'], tags=['forms']))
    full.append(decl('string', 'String', validators=[V('regex', 'r"^[a-z]+$"', form='lit', pattern='^[a-z]+$'), V('not_empty')], derives=['Debug', 'TryFrom'], tags=['forms']))
    full.append(decl('string', 'String', validators=[V('regex', 'r#"^[a-z"]+$"#', form='lit', pattern='^[a-z"]+$')], derives=['Debug', 'TryFrom'], tags=['forms']))
    full.append(decl('string', 'String', validators=[V('regex', '"^\\\\d+\\\\.$"', form='lit', pattern='^\\d+\\.$')], derives=['Debug', 'TryFrom'], tags=['forms']))
    full.append(decl('string', 'String', validators=[V('regex', 'crate::RE_STATIC', form='path', callee='RE_STATIC')], derives=['Debug', 'TryFrom'], tags=['forms']))
    full.append(decl('int', 'i32', sanitizers=[S('with', 'helpers::san_hi', 'path', callee='helpers::san_hi')],
                     validators=[V('predicate', 'helpers::pred_hi', form='path', callee='helpers::pred_hi'), V('less', '10', 10, 'lit')],
                     derives=['Debug', 'TryFrom', 'FromStr'], tags=['forms']))
    full.append(decl('int', 'i32', sanitizers=[S('with', '|x: i32| -> i32 { x.wrapping_abs() }', 'closure')], validators=[V('less', '10', 10, 'lit')],
                     derives=['Debug', 'TryFrom'], tags=['forms']))
    full.append(decl('int', 'i64', sanitizers=[S('with', 'move |x: i64| x / 2', 'closure')], validators=[V('predicate', 'move |x: &i64| *x != 4', form='closure')],
                     derives=['Debug', 'TryFrom', 'FromStr'], tags=['forms']))
    full.append(decl('int', 'u16', sanitizers=[S('with', '|_x| 7', 'closure')], derives=['Debug', 'From'], tags=['forms']))
    full.append(decl('int', 'u16', sanitizers=[S('with', '|x| -> u16 { x + 1 }', 'closure')], derives=['Debug', 'From'], tags=['forms']))
    full.append(decl('string', 'String', sanitizers=[S('with', '|s| { if s.starts_with(\'#\') { return s; } s.replace(\'_\', " ") }', 'closure'), S('trim'), S('lowercase')],
                     validators=[V('not_empty'), V('len_char_max', '5', 5, 'lit')], derives=['Debug', 'TryFrom'], tags=['forms']))
    full.append(decl('float', 'f64', validators=[V('predicate', 'helpers::deep::pred_hf', form='path', callee='helpers::deep::pred_hf'), V('finite')],
                     derives=['Debug', 'TryFrom'], tags=['forms']))
    full.append(X(decl('int', 'i32', validators=[V('greater', '1', 1, 'lit')], derives=['Debug', 'TryFrom', 'Display'], tags=['forms']),
                  pre_attrs=['/// a documented newtype', '#[doc = "second line"]'], post_attrs=['/// docs between the attribute and the item']))
    full.append(X(decl('string', 'String', sanitizers=[S('trim')], validators=[V('not_empty')], derives=['Debug', 'TryFrom', 'AsRef'], tags=['forms']),
                  post_attrs=['#[doc(hidden)]']))

    # f32 literal bounds just off the midpoint of two adjacent f32 values: decimal -> f64 -> f32 rounds to the wrong neighbour
    for kind, text in (('less', '1.00000005960464478'), ('greater_or_equal', '1.00000005960464478'), ('less', '9007199791611905'),
                       ('greater', '0.100000001490116119384765625'), ('less_or_equal', '16777217.0000000000000001')):
        full.append(decl('float', 'f32', validators=[V(kind, text, f32_from_decimal(text), 'lit')], derives=['Debug', 'TryFrom', 'FromStr'], tags=['midpoint']))

    # declarations produced by a user's macro_rules!: the bound is an `expr` fragment whose top-level operator binds weaker
    # than the `+ 1` / `- 1` the Arbitrary template appends, or than a unary minus
    for t in ['u8', 'i32']:
        U = t.upper()
        for kind, frag, val in (('less', f'K_{U} << 3', K << 3), ('greater', f'K_{U} | 8', K | 8), ('less_or_equal', f'K_{U} << 1', K << 1),
                                ('greater_or_equal', f'K_{U} & 4', K & 4), ('less', f'K_{U} + 1', K + 1), ('greater', '3', 3)):
            full.append(X(decl('int', t, validators=[V(kind, '$e', val, 'expr')], derives=['Debug', 'TryFrom', 'Arbitrary'], tags=['via-macro']), via_macro=frag))
    full.append(X(decl('float', 'f64', validators=[V('greater', '$e', KF + 1.0, 'expr'), V('finite')], derives=['Debug', 'TryFrom', 'Arbitrary'], tags=['via-macro']),
                  via_macro='KF_F64 + 1.0'))
    full.append(X(decl('string', 'String', validators=[V('len_char_max', '$e', MINLEN + 2, 'expr')], derives=['Debug', 'TryFrom', 'Arbitrary'], tags=['via-macro']),
                  via_macro='MINLEN + 2'))

    # ... or the inner type itself as a `$t:ty` fragment: the family (and with it AsRef<str>, Borrow<str>, the sanitizers) must
    # be the one of the type written at the call site
    full.append(X(decl('string', 'String', sanitizers=[S('trim'), S('lowercase')], validators=[V('not_empty'), V('len_char_max', '12', 12, 'lit')],
                       derives=['Debug', 'Clone', 'PartialEq', 'Eq', 'PartialOrd', 'Ord', 'Hash', 'AsRef', 'Borrow', 'Deref', 'TryFrom', 'FromStr', 'Display'], tags=['via-macro']),
                  via_macro_ty=True))
    full.append(X(decl('string', 'String', derives=['Debug', 'Clone', 'PartialEq', 'Eq', 'PartialOrd', 'Ord', 'Hash', 'AsRef', 'Borrow', 'Deref', 'From', 'FromStr', 'Display', 'Into'],
                       tags=['via-macro']), via_macro_ty=True))
    full.append(X(decl('int', 'u16', validators=[V('less', '1000', 1000, 'lit')], derives=['Debug', 'Clone', 'Copy', 'PartialEq', 'TryFrom', 'FromStr', 'Arbitrary'], tags=['via-macro']),
                  via_macro_ty=True))
    full.append(X(decl('float', 'f64', validators=[V('finite'), V('greater_or_equal', '0.0', 0.0, 'lit')], derives=['Debug', 'Clone', 'Copy', 'PartialEq', 'Eq', 'PartialOrd', 'Ord', 'TryFrom'],
                       tags=['via-macro']), via_macro_ty=True))
    # bounds that are paths ending in MIN / MAX but are *not* the limits of the inner type
    full.append(decl('int', 'u8', validators=[V('greater_or_equal', 'month::MIN', 1, 'expr'), V('less_or_equal', 'month::MAX', 12, 'expr')],
                     derives=['Debug', 'TryFrom', 'FromStr', 'Arbitrary'], tags=['minmax-path']))
    full.append(decl('int', 'i32', validators=[V('greater', 'limits::MIN', -40, 'expr'), V('less', 'crate::limits::MAX', 100, 'expr')],
                     derives=['Debug', 'TryFrom', 'Arbitrary', 'Display'], tags=['minmax-path']))
    full.append(decl('float', 'f64', validators=[V('greater_or_equal', 'Celsius::MIN', -273.15, 'expr'), V('less_or_equal', 'flimits::MAX', 9.5, 'expr')],
                     derives=['Debug', 'TryFrom', 'Arbitrary'], tags=['minmax-path']))
    full.append(decl('string', 'String', validators=[V('len_char_min', 'lens::MIN', 2, 'expr'), V('len_char_max', 'lens::MAX', 7, 'expr')],
                     derives=['Debug', 'TryFrom', 'Arbitrary'], tags=['minmax-path']))
    # unusual places: a function body, a nested module with restricted visibility
    for fam, t, vs, sn in (('int', 'i32', [V('greater', '0', 0, 'lit'), V('less', 'K_I32 * 2', K * 2, 'expr')], []),
                           ('string', 'String', [V('not_empty'), V('len_char_max', 'MAXLEN', MAXLEN, 'expr')], [S('trim')]),
                           ('float', 'f64', [V('finite'), V('greater_or_equal', '0.0', 0.0, 'lit')], [])):
        ds_ = ['Debug', 'Clone', 'PartialEq', 'TryFrom', 'FromStr', 'Display', 'AsRef', 'Deserialize', 'Serialize']
        full.append(X(decl(fam, t, sanitizers=sn, validators=vs, derives=ds_, vis='', tags=['place']), in_fn=True))
        full.append(X(decl(fam, t, sanitizers=sn, validators=vs, derives=ds_, vis='pub', tags=['place']), in_fn=True))
        for vis_ in ('pub(super)', 'pub(crate)', 'pub', ''):
            full.append(X(decl(fam, t, sanitizers=sn, validators=vs, derives=ds_, vis=vis_, tags=['place']), in_mod=True))
    # ... where a name means something else than one scope further out. `value` is what the name denotes inside the
    # hidden module (what every generated impl of the pinned tree agrees on); `site_value` is what it denotes where
    # the user wrote it (R-SCOPE): a constant local to the function body is invisible from the hidden module, and
    # `super::` written in the attribute is relative to the hidden module, i.e. names the holder's item
    full.append(X(decl('int', 'u8', validators=[V('less_or_equal', 'SH_U8', 200, 'expr', site_value=10)], derives=['Debug', 'TryFrom', 'Arbitrary', 'Default', 'Display'],
                       default={'text': 'SH_U8 - 1', 'value': 199}, vis='', tags=['place', 'scope']),
                  in_fn=True, local_items='const SH_U8: u8 = 10;'))
    full.append(X(decl('int', 'i32', validators=[V('greater', 'super::SH_I32', -7, 'expr', site_value=300), V('less', '500', 500, 'lit')],
                       derives=['Debug', 'TryFrom', 'Arbitrary', 'Display'], vis='pub(super)', tags=['place', 'scope']),
                  in_mod=True, local_items='pub const SH_I32: i32 = -7;'))
    full.append(X(decl('float', 'f64', validators=[V('greater_or_equal', 'SH_F64', -300.5, 'expr', site_value=0.5), V('less', '5.0', 5.0, 'lit')],
                       derives=['Debug', 'TryFrom', 'Arbitrary', 'Display'], vis='pub', tags=['place', 'scope']),
                  in_fn=True, local_items='const SH_F64: f64 = 0.5;'))
    full.append(X(decl('string', 'String', validators=[V('len_char_min', 'SH_LEN', 2, 'expr'), V('len_char_max', 'super::SH_LEN + 3', 5, 'expr', site_value=33)],
                       derives=['Debug', 'TryFrom', 'Arbitrary', 'Display'], vis='pub', tags=['place', 'scope']),
                  in_mod=True, local_items='pub const SH_LEN: usize = 2;'))
    # Arbitrary next to a validation the generator knows nothing about (refused by the pinned tree; if a tree accepts it,
    # the generator cannot know which values are valid)
    for fam, t in (('int', 'i64'), ('int', 'u8'), ('float', 'f64'), ('string', 'String')):
        cname_ = {'int': f'check_{t}', 'float': f'check_{t}', 'string': 'check_str'}[fam]
        full.append(decl(fam, t, custom={'with_text': cname_, 'form': 'path', 'callee': cname_, 'error': 'MyErr'}, derives=['Debug', 'Arbitrary'],
                         expect='either', tags=['arb-custom']))
    # string Arbitrary next to a custom sanitizer, in every position relative to the built-in ones (refused by the pinned
    # tree; where a tree accepts it, the generator must still only yield values the validators accept)
    strip = S('with', '|s: String| s.replace(char::is_control, "")', 'closure')
    for sans in ([S('trim'), strip], [strip, S('trim')], [S('lowercase'), strip], [strip], [S('trim'), S('lowercase'), strip], [S('trim'), strip, S('uppercase')]):
        full.append(decl('string', 'String', sanitizers=sans, validators=[V('not_empty'), V('len_char_max', '20', 20, 'lit')],
                         derives=['Debug', 'Arbitrary'], expect='either', tags=['arb-custom']))
    for fam, t, vs in (('float', 'f64', [V('finite'), V('greater_or_equal', '0.0', 0.0, 'lit')]), ('int', 'i16', [V('greater', '0', 0, 'lit')])):
        w = S('with', '|x| x / 2.0' if fam == 'float' else '|x| x / 2', 'closure')
        full.append(decl(fam, t, sanitizers=[w], validators=vs, derives=['Debug', 'Arbitrary'], expect='either', tags=['arb-custom']))
    # type names that end in `Error` (the generated error type is `<Name>Error`, the parse error `<Name>ParseError`)
    full.append(X(decl('int', 'i32', validators=[V('less', '256', 256, 'lit'), V('greater_or_equal', '0', 0, 'lit')], derives=['Debug', 'TryFrom', 'FromStr', 'Deserialize', 'Display'],
                       tags=['name']), name_override='ExitError'))
    full.append(X(decl('float', 'f64', validators=[V('greater_or_equal', '0.0', 0.0, 'lit'), V('finite')], derives=['Debug', 'TryFrom', 'FromStr'], tags=['name']),
                  name_override='RelativeError'))
    full.append(X(decl('string', 'String', validators=[V('len_char_max', '8', 8, 'lit'), V('not_empty')], derives=['Debug', 'TryFrom', 'FromStr'], tags=['name']),
                  name_override='NameErrorError'))

    # less common spellings of a bound: every one is an ordinary Rust expression of the inner type
    for t in ['i32', 'u64', 'i8']:
        U = t.upper()
        ex_sp = [('(5)', 5), ('lim_m!()', 6), (f'consts::LIM_{U}', 9), (f'crate::consts::LIM_{U}', 9), (f'<{t}>::MAX', int_max(t)), (f'{t}::MAX as {t}', int_max(t)),
                 ('if true { 5 } else { 6 }', 5), ('match 1 { _ => 5 }', 5), (f'(5 as {t})', 5), (f'i8::MAX as {t}', 127), ('{ 5 }', 5), ('(5 + 1)', 6),
                 ('0b1_01', 5), ('0o7', 7), (f'0x7f{t}', 127), ('1_0_0', 100), (f'5{t}', 5), (f'1_0_{t}', 10), ('0x0f', 15), ('0xf3', 243) if t != 'i8' else ('0x73', 115)]
        if t != 'i8':
            # hex digits that spell a float suffix are digits: 0x1f32 is 7986
            ex_sp += [('0x1f32', 0x1f32), ('0x0f64', 0x0f64), ('0xf_f32', 0xff32), ('0x1_f64', 0x1f64)]
        if int_signed(t):
            ex_sp += [('-(5)', -5), ('(-5)', -5), ('- 5', -5), ('-(-5)', 5), ('- -5', 5), ('-0', 0), ('-lim_m!()', -6), (f'-consts::LIM_{U}', -9), ('!0', -1), ('-0x10', -16)]
        kinds = ['greater', 'greater_or_equal', 'less', 'less_or_equal']
        for i, (text, value) in enumerate(ex_sp):
            # every spelling on every side for one type (a misread bound that stays inside the valid range on one side is
            # outside it on the other); one kind per spelling for the other types
            for kind in (kinds if (t == 'i32' or thorough) else [kinds[i % 4]]):
                arb = not ((kind == 'greater' and value == int_max(t)) or (kind == 'less' and value == int_min(t)))
                form = 'lit' if re.fullmatch(r'-?\s?[0-9_]+', text) else 'expr'
                full.append(decl('int', t, validators=[V(kind, text, value, form)], derives=['Debug', 'TryFrom'] + (['Arbitrary'] if arb else []), tags=['spelling', 'exotic']))
    for t in FLOAT_TYPES:
        U = t.upper()
        rr = (lambda x: f32_round(x)) if t == 'f32' else (lambda x: x)
        eps = 1.1920928955078125e-07 if t == 'f32' else 2.220446049250313e-16
        minpos = 1.1754943508222875e-38 if t == 'f32' else 2.2250738585072014e-308
        fmax = 3.4028234663852886e38 if t == 'f32' else 1.7976931348623157e308
        pi = rr(3.141592653589793)
        ex_sp = [('1.', 1.0), ('1e-3', rr(1e-3)), ('1E3', 1000.0), ('1_0.5', 10.5), (f'{t}::EPSILON', eps), (f'{t}::MIN_POSITIVE', minpos),
                 (f'core::{t}::consts::PI', pi), (f'-{t}::MAX', -fmax), ('(1.0 / 4.0)', 0.25), ('-(2.5)', -2.5), ('(-2.5)', -2.5), ('- 2.5', -2.5),
                 (f'consts::FLIM_{U}', 9.5), ('flim_m!()', 6.5), (f'-consts::FLIM_{U}', -9.5), ('if true { 1.5 } else { 2.5 }', 1.5), (f'(2 as {t})', 2.0),
                 ('-0', -0.0 if False else 0.0), ('1e0', 1.0), (f'{t}::MIN', -fmax), ('5', 5.0), ('-5', -5.0),
                 (f'0.5_{t}', 0.5), (f'2.5{t}', 2.5), ('1e2', 100.0), ('-(-2.5)', 2.5), ('- -2.5', 2.5)]
        kinds = ['greater', 'greater_or_equal', 'less', 'less_or_equal']
        for i, (text, value) in enumerate(ex_sp):
            form = 'lit' if re.fullmatch(r'-?\s?[0-9_]+(\.[0-9_]*)?([eE][-+]?[0-9]+)?', text) else 'expr'
            for kind in (kinds if (t == 'f64' or thorough) else [kinds[i % 4]]):
                full.append(decl('float', t, validators=[V(kind, text, value, form)], derives=['Debug', 'TryFrom'], tags=['spelling', 'exotic']))

    # valid sets of exactly one value, spelled through expressions (the macro cannot compare those bounds with each other)
    for t in ['u8', 'i8', 'i32', 'i128']:
        U = t.upper()
        full.append(decl('int', t, validators=[V('greater_or_equal', f'K_{U}', K, 'expr'), V('less_or_equal', f'K_{U}', K, 'expr')],
                         derives=['Debug', 'TryFrom', 'Arbitrary'], tags=['single-value']))
        full.append(decl('int', t, validators=[V('greater', f'{t}::MAX - 1', int_max(t) - 1, 'expr')], derives=['Debug', 'TryFrom', 'Arbitrary'], tags=['single-value']))
        full.append(decl('int', t, validators=[V('less', f'{t}::MIN + 1', int_min(t) + 1, 'expr')], derives=['Debug', 'TryFrom', 'Arbitrary'], tags=['single-value']))
        full.append(decl('int', t, validators=[V('greater', str(K - 1), K - 1, 'lit'), V('less', f'K_{U} + 1', K + 1, 'expr')], derives=['Debug', 'Arbitrary'], tags=['single-value']))
        full.append(decl('int', t, validators=[V('greater_or_equal', '0x10', 16, 'expr'), V('less_or_equal', '16', 16, 'lit')], derives=['Debug', 'Arbitrary'], tags=['single-value']))

    # validated + Default with default expressions that are not a literal (struct literal, block, string with braces): the
    # expression is spliced into generated code and, in some templates, into messages
    brace_defaults = [
        decl('any', 'Point', validators=[V('predicate', 'pred_point', form='path', callee='pred_point')], derives=['Debug', 'Default'],
             default={'text': 'Point { x: 1, y: 2 }', 'value': None}, tags=['default', 'brace-default']),
        decl('any', 'Point', custom={'with_text': 'check_point', 'form': 'path', 'callee': 'check_point', 'error': 'MyErr'}, derives=['Debug', 'Default'],
             default={'text': 'Point { x: 3, y: 4 }', 'value': None}, tags=['default', 'brace-default']),
        decl('int', 'i32', validators=[V('less', '10', 10, 'lit')], derives=['Debug', 'Default'], default={'text': '{ 4 }', 'value': 4}, tags=['default', 'brace-default']),
        decl('float', 'f64', validators=[V('finite')], derives=['Debug', 'Default'], default={'text': 'if true { 1.5 } else { 2.5 }', 'value': 1.5},
             tags=['default', 'brace-default']),
        decl('string', 'String', validators=[V('not_empty')], derives=['Debug', 'Default'], default={'text': '"{}{x}"', 'value': '{}{x}'}, tags=['default', 'brace-default']),
        # arithmetic on unsuffixed float literals is done in the inner type (f32 here): 1.0 - 0.9 is 0.100000024, not 0.1
        decl('float', 'f32', validators=[V('finite'), V('greater', '0.1', 0.1, 'lit')], derives=['Debug', 'Default', 'TryFrom'],
             default={'text': '1.0 - 0.9', 'value': f32_round(f32_round(1.0) - f32_from_decimal('0.9'))}, tags=['default', 'literal-typing']),
        decl('float', 'f32', derives=['Debug', 'Default', 'From'],
             default={'text': '0.1 * 0.1', 'value': f32_round(f32_from_decimal('0.1') * f32_from_decimal('0.1'))}, tags=['default', 'literal-typing']),
        decl('int', 'u8', validators=[V('less', '200', 200, 'lit')], derives=['Debug', 'Default', 'TryFrom'],
             default={'text': '100 + 50', 'value': 150}, tags=['default', 'literal-typing']),
    ]
    nostd += [copy.deepcopy(d) for d in brace_defaults if d['family'] != 'string']   # C15 is about integer/float/other inner types
    full += [copy.deepcopy(d) for d in brace_defaults]

    # ---------------- random sample of the dimension product (interaction coverage) ---------------------
    full += random_decls(random.Random(seed * 7919 + 17), 2500 if thorough else 320, tier)

    # ---------------- naming ------------------------------------------------------------
    def name_all(lst, prefix):
        for i, d in enumerate(lst):
            d['name'] = d.get('name_override') or f'{prefix}{i:04d}'
    name_all(full, 'D')
    name_all(nostd, 'N')

    # split the full corpus into chunks compiled as separate crates (parallel rustc)
    nchunks = 16 if thorough else 6
    chunks = [[] for _ in range(nchunks)]
    for i, d in enumerate(full):
        chunks[i % nchunks].append(d)
    crates = {}
    extra = ('\npub const fn pred_point_c(p: &Point) -> bool { p.x != p.y }\n'
             'pub const fn san_c_u32(n: u32) -> u32 { n - n % 5 }\npub const fn san_c_i32(n: i32) -> i32 { n - n % 5 }\n'
             'pub const fn san_c_f64(x: f64) -> f64 { x * 0.5 }\npub const fn san_c_point(p: Point) -> Point { Point { x: p.x - p.x % 2, y: p.y } }\n'
             'pub fn trim_ref(s: &str) -> &str { s.trim() }\npub fn first3(s: &[u8]) -> &[u8] { if s.len() > 3 { &s[..3] } else { s } }\n')
    for i, ch in enumerate(chunks):
        crates[f'cfull{i}'] = {'features': ['serde', 'arbitrary', 'new_unchecked', 'regex', 'schemars08'], 'std': True,
                               'edition': '2024' if i == 1 else '2021',    # one chunk of the grid is an edition-2024 user crate
                               'prelude': PRELUDE_STD + PRELUDE_REGEX + PRELUDE_TRICKY + extra + numeric_prelude(), 'decls': ch}
    bare = []
    for d in full:
        if len(bare) >= (400 if thorough else 90):
            break
        gated = {'Serialize', 'Deserialize', 'Arbitrary'}
        if d['new_unchecked'] or any(v['kind'] == 'regex' for v in d['validators']) or d.get('split'):
            continue
        if not ({'single', 'pair', 'order', 'sanitize', 'custom', 'default', 'finite', 'predicate', 'single-trait', 'generic-param'} & set(d['tags'])):
            continue
        if _counter[0] % 1 == 0 and (len(bare) < 30 or rnd.random() < 0.12):
            nd = copy.deepcopy(d)
            nd['derives'] = [x for x in nd['derives'] if x not in gated]
            nd['tags'] = nd['tags'] + ['bare']
            bare.append(nd)
    for i, d in enumerate(bare):
        d['name'] = f'B{i:04d}'
    crates['cbare'] = {'features': [], 'std': True, 'bare': True, 'edition': '2018',
                       'prelude': PRELUDE_STD + extra + numeric_prelude(), 'decls': bare}
    # a std user crate that depends on nutype with default-features = false: the generator's `std` feature is off, the
    # user's crate is an ordinary std crate (String newtypes included)
    nsf = []
    for d in full:
        if len(nsf) >= (300 if thorough else 110):
            break
        if d.get('split') or d.get('via_macro') or 'JsonSchema' in d['derives'] or d['new_unchecked'] is False and False:
            continue
        if d['family'] == 'string' and ({'single', 'spelling', 'order', 'sanitize', 'custom', 'default', 'forms', 'trivial'} & set(d['tags'])) and len([x for x in nsf if x['family'] == 'string']) < (150 if thorough else 60):
            nsf.append(copy.deepcopy(d))
        elif d['family'] != 'string' and ({'pair', 'custom', 'default', 'sanitize', 'predicate'} & set(d['tags'])) and len([x for x in nsf if x['family'] != 'string']) < (150 if thorough else 50):
            nsf.append(copy.deepcopy(d))
    for i, d in enumerate(nsf):
        d['name'] = f'F{i:04d}'
    crates['cnsf'] = {'features': ['serde', 'arbitrary', 'new_unchecked', 'regex'], 'std': True, 'macro_std': False,
                      'prelude': PRELUDE_STD + PRELUDE_REGEX + PRELUDE_TRICKY + extra + numeric_prelude(), 'decls': nsf}
    crates['cnostd'] = {'features': ['serde', 'arbitrary'], 'std': False,
                        'prelude': PRELUDE_NOSTD + numeric_prelude(), 'decls': nostd}
    return crates


def build_tests(tier='quick'):
    """declarations whose *generated unit tests* (cfg(test)) are analysed: contradictory expression bounds
    and invalid defaults must make the generated test fail (C08). expect_test: 'fails' | 'passes'"""
    ds = []
    thorough = tier == 'thorough'

    def add(d, consistent_test=None, default_test=None):
        d['expect_tests'] = {'consistent': consistent_test, 'default': default_test}
        ds.append(d)
    for t in (['i32', 'u8', 'i128'] if not thorough else INT_TYPES_ALL):
        U = t.upper()
        cases = [((f'K_{U}', K), (f'K_{U} * 2', K * 2)), ((f'K_{U}', K), (f'K_{U}', K)), ((f'K_{U} * 2', K * 2), (f'K_{U}', K)),
                 ((f'K_{U} + 1', K + 1), (f'K_{U}', K))]
        for (lt, lv), (ut, uv) in cases:
            for lo, up in itertools.product(['greater', 'greater_or_equal'], ['less', 'less_or_equal']):
                lo_eff = lv + 1 if lo == 'greater' else lv
                hi_eff = uv - 1 if up == 'less' else uv
                if lv == uv:
                    empty = not (lo == 'greater_or_equal' and up == 'less_or_equal')
                elif lv < uv:
                    empty = lo_eff > hi_eff
                else:
                    empty = True
                add(decl('int', t, validators=[V(lo, lt, lv, 'expr'), V(up, ut, uv, 'expr')], derives=['Debug'], tags=['gentest']),
                    consistent_test='fails' if empty else 'passes')
        for (lt, lv), (ut, uv), empty in (((('0x20', 32), ('0x10', 16), True)), (('0x10', 16), ('0x20', 32), False), ((f'20{t}', 20), ('10', 10), True),
                                          (('0b11', 3), (f'3{t}', 3), False)):
            add(decl('int', t, validators=[V('greater_or_equal', lt, lv, 'expr'), V('less_or_equal', ut, uv, 'expr' if not ut.isdigit() else 'lit')],
                     derives=['Debug'], tags=['gentest', 'nondecimal-literal']), consistent_test='fails' if empty else 'passes')
        add(decl('int', t, validators=[V('greater_or_equal', f'K_{U}', K, 'expr')], derives=['Debug', 'Default'], default={'text': f'K_{U} - 1', 'value': K - 1},
                 tags=['gentest']), default_test='fails')
        add(decl('int', t, validators=[V('greater_or_equal', f'K_{U}', K, 'expr')], derives=['Debug', 'Default'], default={'text': f'K_{U}', 'value': K},
                 tags=['gentest']), default_test='passes')
        add(decl('int', t, validators=[V('less', '10', 10, 'lit')], derives=['Debug', 'Default'], default={'text': '10', 'value': 10}, tags=['gentest']),
            default_test='fails')
    for t in FLOAT_TYPES:
        U = t.upper()
        cases = [((f'KF_{U}', KF), (f'KF_{U} * 2.0', KF * 2)), ((f'KF_{U}', KF), (f'KF_{U}', KF)), ((f'KF_{U} * 2.0', KF * 2), (f'KF_{U}', KF))]
        for (lt, lv), (ut, uv) in cases:
            for lo, up in itertools.product(['greater', 'greater_or_equal'], ['less', 'less_or_equal']):
                if lv == uv:
                    empty = not (lo == 'greater_or_equal' and up == 'less_or_equal')
                else:
                    empty = lv > uv
                add(decl('float', t, validators=[V(lo, lt, lv, 'expr'), V(up, ut, uv, 'expr')], derives=['Debug'], tags=['gentest']),
                    consistent_test='fails' if empty else 'passes')
        add(decl('float', t, validators=[V('greater', f'1.5{t}', 1.5, 'expr'), V('less_or_equal', f'1.5{t}', 1.5, 'expr')], derives=['Debug'],
                 tags=['gentest', 'nondecimal-literal']), consistent_test='fails')
        add(decl('float', t, validators=[V('greater_or_equal', f'1.5{t}', 1.5, 'expr'), V('less_or_equal', '2.5', 2.5, 'lit')], derives=['Debug'],
                 tags=['gentest', 'nondecimal-literal']), consistent_test='passes')
        add(decl('float', t, validators=[V('finite'), V('greater', '0', 0.0, 'lit')], derives=['Debug', 'Default'], default={'text': '0.0', 'value': 0.0},
                 tags=['gentest']), default_test='fails')
        add(decl('float', t, validators=[V('finite')], derives=['Debug', 'Default'], default={'text': f'{t}::INFINITY', 'value': float('inf')},
                 tags=['gentest']), default_test='fails')
        add(decl('float', t, validators=[V('finite')], derives=['Debug', 'Default'], default={'text': '1.5', 'value': 1.5}, tags=['gentest']),
            default_test='passes')
    for (a, av), (b, bv) in ((('MINLEN', MINLEN), ('MAXLEN', MAXLEN)), (('MAXLEN', MAXLEN), ('MINLEN', MINLEN)), (('MINLEN', MINLEN), ('MINLEN', MINLEN)),
                             (('MINLEN + 1', MINLEN + 1), ('MINLEN', MINLEN))):
        add(decl('string', 'String', validators=[V('len_char_min', a, av, 'expr'), V('len_char_max', b, bv, 'expr')], derives=['Debug'], tags=['gentest']),
            consistent_test='fails' if av > bv else 'passes')
    add(decl('string', 'String', validators=[V('len_char_min', '0x10', 16, 'expr'), V('len_char_max', '0x08', 8, 'expr')], derives=['Debug'],
             tags=['gentest', 'nondecimal-literal']), consistent_test='fails')
    add(decl('string', 'String', validators=[V('len_char_min', '2usize', 2, 'expr'), V('len_char_max', '0x08', 8, 'expr')], derives=['Debug'],
             tags=['gentest', 'nondecimal-literal']), consistent_test='passes')
    add(decl('string', 'String', validators=[V('not_empty')], derives=['Debug', 'Default'], default={'text': '""', 'value': ''}, tags=['gentest']),
        default_test='fails')
    add(decl('string', 'String', sanitizers=[S('trim')], validators=[V('not_empty')], derives=['Debug', 'Default'], default={'text': '"   "', 'value': '   '},
             tags=['gentest']), default_test='fails')
    add(decl('string', 'String', sanitizers=[S('trim')], validators=[V('not_empty')], derives=['Debug', 'Default'], default={'text': '" a "', 'value': ' a '},
             tags=['gentest']), default_test='passes')
    # custom validation: the outcome of the default-validity test is the user's function's business, but the test has to
    # be there and has to depend on it, in every family
    for t in ['i32', 'u16'] + (['i128', 'usize'] if thorough else []):
        add(decl('int', t, custom={'with_text': f'check_{t}', 'form': 'path', 'callee': f'check_{t}', 'error': 'MyErr'},
                 derives=['Debug', 'Default'], default={'text': f'K_{t.upper()}', 'value': K}, tags=['gentest', 'custom']), default_test='depends')
    for t in FLOAT_TYPES:
        add(decl('float', t, custom={'with_text': f'check_{t}', 'form': 'path', 'callee': f'check_{t}', 'error': 'MyErr'},
                 derives=['Debug', 'Default'], default={'text': f'KF_{t.upper()} / 2.0', 'value': KF / 2}, tags=['gentest', 'custom']), default_test='depends')
    add(decl('string', 'String', custom={'with_text': 'check_str', 'form': 'path', 'callee': 'check_str', 'error': 'MyErr'},
             derives=['Debug', 'Default'], default={'text': '""', 'value': ''}, tags=['gentest', 'custom']), default_test='depends')
    add(decl('any', 'Point', custom={'with_text': 'check_point', 'form': 'path', 'callee': 'check_point', 'error': 'MyErr'},
             derives=['Debug', 'Default'], default={'text': 'Point { x: 1, y: 2 }', 'value': None}, tags=['gentest', 'custom']), default_test='depends')
    add(decl('any', 'Point', validators=[V('predicate', 'pred_point', form='path', callee='pred_point')],
             derives=['Debug', 'Default'], default={'text': 'Point { x: 1, y: 2 }', 'value': None}, tags=['gentest', 'custom']), default_test='depends')
    for i, d in enumerate(ds):
        d['name'] = f'G{i:04d}'
    return {'ctests': {'features': ['serde', 'arbitrary', 'new_unchecked', 'regex'], 'std': True,
                       'prelude': PRELUDE_STD + PRELUDE_REGEX + numeric_prelude(), 'decls': ds}}


def crate_source(c):
    """Source text of a corpus crate; fills d['line'] (line of `#[nutype(`) and closure positions."""
    out = c['prelude'] + '\n'
    for d in c['decls']:
        line0 = out.count('\n') + 1
        d['line'] = line0
        txt = render(d, line0)
        d['end_line'] = line0 + txt.count('\n') - 1
        out += txt + '\n'
    return out


if __name__ == '__main__':
    import sys
    cs = build(sys.argv[1] if len(sys.argv) > 1 else 'quick')
    for n, c in cs.items():
        print(n, len(c['decls']))
    print(sum(len(c['decls']) for c in cs.values()))
