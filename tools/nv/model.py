"""Per-declaration view of the facts: the generated module of one newtype."""
from . import sym


class Gen:
    def __init__(self, facts, ex, decl):
        self.F = facts
        self.ex = ex
        self.d = decl
        name = decl['name']
        self.name = name
        self.mod = None
        for m in facts.mods:
            if m['name'] == f'__nutype_{name}__' and (decl.get('module') is None or m['path'] == decl['module']):
                self.mod = m
        self.modpath = self.mod['path'] if self.mod else None
        self.adt = None
        self.err_adt = None
        self.parse_err_adt = None
        self.local_adts = []
        if self.modpath:
            for a in facts.adts.values():
                if a['module'] == self.modpath or a['module'].startswith(self.modpath + '::'):
                    self.local_adts.append(a)
                    if a['name'] == name and a['module'] == self.modpath:
                        self.adt = a
                    elif a['name'] == name + 'Error':
                        self.err_adt = a
                    elif a['name'] == name + 'ParseError':
                        self.parse_err_adt = a
        self.fns = [f for f in facts.fns.values()
                    if self.modpath and (f['module'] == self.modpath or f['module'].startswith(self.modpath + '::'))]
        self.impls = [i for i in facts.impls
                      if self.modpath and (i['module'] == self.modpath or i['module'].startswith(self.modpath + '::'))]
        # impls the expansion places *outside* the generated module (none on the pinned tree) are generated code all
        # the same: they are analysed with the rest
        self.detached_impls = []
        if self.adt is not None:
            mine = {i['lid'] for i in self.impls}
            for i in facts.impls:
                if i['lid'] in mine or not str(i.get('span', '')).startswith('!'):
                    continue
                if self.self_kind(i) is not None:
                    self.detached_impls.append(i)
            if self.detached_impls:
                self.impls = self.impls + self.detached_impls
                have = {f['lid'] for f in self.fns}
                for i in self.detached_impls:
                    for it in i['items']:
                        f = facts.fns.get(it['lid'])
                        if f is not None and f['lid'] not in have:
                            self.fns.append(f)
                            have.add(f['lid'])
                            # closures of those functions
                            for c in facts.fns.values():
                                if c['kind'] == 'Closure' and c['path'].startswith(f['path'] + '::') and c['lid'] not in have:
                                    self.fns.append(c)
                                    have.add(c['lid'])
        self._paths = {}

    # ---- lookup
    def self_kind(self, impl):
        """'T' | '&T' | '&mut T' | None for the impl's self type"""
        t = self.F.ty(impl['self'])
        if self.adt is None:
            return None
        if t['k'] == 'adt' and t.get('lid') == self.adt['lid']:
            return 'T'
        if t['k'] == 'ref':
            u = self.F.ty(t['t'])
            if u['k'] == 'adt' and u.get('lid') == self.adt['lid']:
                return '&mut T' if t['mut'] else '&T'
        return None

    def inherent_fn(self, name):
        for i in self.impls:
            if 'trait' not in i and self.self_kind(i) == 'T':
                for it in i['items']:
                    if it['name'] == name and it['kind'] == 'fn':
                        return self.F.fns.get(it['lid'])
        return None

    def inherent_fns(self):
        out = []
        for i in self.impls:
            if 'trait' not in i and self.self_kind(i) == 'T':
                for it in i['items']:
                    if it['kind'] == 'fn' and it['lid'] in self.F.fns:
                        out.append(self.F.fns[it['lid']])
        return out

    def trait_impls(self, trait_tail, self_kind='T'):
        """impls of a trait (matched by the last path segments, e.g. 'convert::TryFrom') for T"""
        out = []
        for i in self.impls:
            tr = i.get('trait')
            if tr and (tr == trait_tail or tr.endswith('::' + trait_tail)) and self.self_kind(i) == self_kind:
                out.append(i)
        return out

    def impl_fn(self, impl, name):
        for it in impl['items']:
            if it['name'] == name and it['kind'] == 'fn':
                return self.F.fns.get(it['lid'])
        return None

    def impl_type(self, impl, name):
        for it in impl['items']:
            if it['name'] == name and it['kind'] == 'type':
                return it.get('ty')
        return None

    def paths(self, fn, args=None):
        key = (fn['lid'], None if args is None else tuple(sorted(args.items())))
        if key not in self._paths:
            self._paths[key] = self.ex.paths(fn['lid'], args)
        return self._paths[key]

    def has_validation(self):
        return bool(self.d['validators']) or bool(self.d['custom'])

    def ctor(self):
        return self.inherent_fn('try_new' if self.has_validation() else 'new')
