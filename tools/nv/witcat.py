"""Witness catalogues: bypass attempts (C05), error-enum exhaustiveness (C07), float Eq/Ord (C12)."""

HEAD = '#![allow(warnings)]\n'
HEAD_NOSTD = '#![no_std]\n#![allow(warnings)]\nextern crate alloc;\n'

# family -> (inner type, raw expression, declaration attribute with view derives, extra prelude)
FAMS = {
    'int': ('i32', '7i32',
            'validate(greater_or_equal = 1, less = 100), derive(Debug, Clone, Copy, PartialEq, Eq, PartialOrd, Ord, Hash, AsRef, Deref, Borrow, Into, TryFrom, FromStr, Display)'),
    'float': ('f64', '0.5f64',
              'validate(finite, greater_or_equal = 0.0, less = 1.0), derive(Debug, Clone, Copy, PartialEq, Eq, PartialOrd, Ord, AsRef, Deref, Borrow, Into, TryFrom, FromStr, Display)'),
    'string': ('String', 'String::from("abc")',
               'sanitize(trim), validate(not_empty, len_char_max = 10), derive(Debug, Clone, PartialEq, Eq, PartialOrd, Ord, Hash, AsRef, Deref, Borrow, Into, TryFrom, FromStr, Display)'),
    'any': ('Vec<i32>', 'vec![1i32, 2]',
            'validate(predicate = |v| !v.is_empty()), derive(Debug, Clone, PartialEq, Eq, Hash, AsRef, Deref, Borrow, Into, TryFrom, IntoIterator)'),
}


def base(fam, attr=None, vis='pub', name='T', extra_attr='', inner=None, field_vis=''):
    inner0, raw, attr0 = FAMS[fam]
    attr = attr0 if attr is None else attr
    inner = inner or inner0
    return (f'mod m {{\n    use nutype::nutype;\n    #[nutype({attr})]\n    {extra_attr}{vis + " " if vis else ""}struct {name}({field_vis}{inner});\n'
            f'    pub fn make() -> {name} {{ {name}::try_new({raw}).unwrap() }}\n}}\n')


def attack_program(fam, body, attr=None, prelude='', **kw):
    """program whose LAST line of `fn attack` body is the offending line; returns (src, attack_line_no)"""
    inner, raw, _ = FAMS[fam]
    src = HEAD + prelude + base(fam, attr, **kw)
    src += 'fn attack() {\n    let mut t = m::make();\n    let raw = ' + raw + ';\n'
    lines_before = src.count('\n')
    src += '    ' + body + '\n}\n'
    return src, lines_before + 1


def c05_witnesses(tier='quick'):
    """list of witness dicts: id, cfg, src, expect, line (attack line or None), what"""
    ws = []

    def add(wid, cfg, src, expect, line=None, what=''):
        ws.append({'id': wid, 'cfg': cfg, 'src': src, 'expect': expect, 'line': line, 'what': what})

    for fam in FAMS:
        inner, raw, _ = FAMS[fam]
        # twin: the same program with a legal last line
        src, ln = attack_program(fam, 'let _ = t.clone().into_inner();')
        add(f'c05-{fam}-twin', 'full', src, 'pass', None, 'baseline program (legal use) compiles')
        attacks = [
            ('tuple-ctor', 'let _ = m::T(raw);', ['E0423', 'E0603', 'E0532'], 'tuple construction'),
            ('struct-literal', 'let _ = m::T { 0: raw };', ['E0451'], 'struct-literal construction'),
            ('field-read', 'let _ = t.0;', ['E0616'], 'field read'),
            ('field-write', 't.0 = raw;', ['E0616'], 'field write'),
            ('pattern-tuple', 'let m::T(x) = t;', ['E0532', 'E0603', 'E0423'], 'tuple pattern destructuring'),
            ('pattern-struct', 'let m::T { 0: x } = t;', ['E0451'], 'struct pattern destructuring'),
            ('deref-assign', '*t = raw;', ['E0594', 'E0614'], 'assignment through Deref'),
            ('deref-mut-call', '{ use std::ops::DerefMut; let _ = t.deref_mut(); }', ['E0599', 'E0596'], 'deref_mut()'),
            ('as-mut-typed', f'let _: &mut {inner} = t.as_mut();', ['E0599', 'E0596', 'E0277', 'E0308', 'E0283'], 'as_mut()'),
            ('borrow-mut-typed', f'{{ use std::borrow::BorrowMut; let _: &mut {inner} = t.borrow_mut(); }}', ['E0277', 'E0596', 'E0308', 'E0599'], 'borrow_mut()'),
            ('bound-derefmut', 'fn need<X: std::ops::DerefMut>() {} need::<m::T>();', ['E0277'], 'T: DerefMut'),
            ('bound-asmut', f'fn need<X: AsMut<{inner}>>() {{}} need::<m::T>();', ['E0277'], 'T: AsMut<Inner>'),
            ('bound-borrowmut', f'fn need<X: std::borrow::BorrowMut<{inner}>>() {{}} need::<m::T>();', ['E0277'], 'T: BorrowMut<Inner>'),
            ('bound-from-raw', f'fn need<X: From<{inner}>>() {{}} need::<m::T>();', ['E0277'], 'T: From<Inner> although validators are declared'),
            ('bound-default', 'fn need<X: Default>() {} need::<m::T>();', ['E0277'], 'T: Default without a declared default'),
            ('default-call', 'let _ = <m::T>::default();', ['E0599', 'E0277'], 'T::default() without derive'),
            ('new-unchecked-noflag', 'let _ = unsafe { m::T::new_unchecked(raw) };', ['E0599'], 'new_unchecked without the flag'),
            ('new-infallible', 'let _ = m::T::new(raw);', ['E0599'], 'infallible new although validators are declared'),
            ('inner-module', 'let _ = m::__nutype_T__::T::try_new(raw);', ['E0603'], 'generated module is private'),
        ]
        if fam == 'any':
            attacks += [
                ('iter-mut', 'for x in t.iter_mut() { *x = 0; }', ['E0596'], 'iter_mut() through Deref'),
                ('for-mut', 'for x in &mut t { }', ['E0277'], 'for x in &mut t'),
                ('get-mut', 'let _ = t.get_mut(0);', ['E0596'], 'get_mut through Deref'),
                ('push', 't.push(3);', ['E0596'], 'push through Deref'),
                ('clear', 't.clear();', ['E0596'], 'clear through Deref'),
                ('index-mut', 't[0] = 5;', ['E0594', 'E0596'], 'index assignment through Deref'),
                ('bound-intoiter-mut', "fn need<X>() where for<'a> &'a mut X: IntoIterator {} need::<m::T>();", ['E0277'], '&mut T: IntoIterator'),
            ]
        if fam == 'string':
            attacks += [
                ('push-str', 't.push_str("x");', ['E0596'], 'push_str through Deref'),
                ('clear', 't.clear();', ['E0596'], 'clear through Deref'),
                ('make-upper', 't.make_ascii_uppercase();', ['E0596'], 'make_ascii_uppercase through Deref'),
                ('as-mut-str', 'let _: &mut str = t.as_mut();', ['E0596', 'E0599', 'E0277', 'E0308', 'E0283'], 'as_mut() to &mut str'),
            ]
        for (aid, body, codes, what) in attacks:
            src, ln = attack_program(fam, body)
            add(f'c05-{fam}-{aid}', 'full', src, {'fail': codes}, ln, what)
        # new_unchecked with the flag: unsafe required; callable in unsafe block
        attr_nu = FAMS[fam][2] + ', new_unchecked'
        src, ln = attack_program(fam, 'let _ = m::T::new_unchecked(raw);', attr=attr_nu)
        add(f'c05-{fam}-new-unchecked-safe-call', 'full', src, {'fail': ['E0133']}, ln, 'new_unchecked called outside unsafe')
        src, ln = attack_program(fam, 'let _ = unsafe { m::T::new_unchecked(raw) };', attr=attr_nu)
        add(f'c05-{fam}-new-unchecked-twin', 'full', src, 'pass', None, 'new_unchecked with flag+feature inside unsafe compiles')
        src, ln = attack_program(fam, 'let _ = unsafe { m::T::new_unchecked(raw) };', attr=attr_nu)
        add(f'c05-{fam}-new-unchecked-nofeature', 'bare', src, {'fail': None, 'msg': r'feature `new_unchecked`'}, None,
            'new_unchecked flag without the crate feature is refused')
        # Default derive without default =
        attr_d = FAMS[fam][2].replace('derive(', 'derive(Default, ')
        src, ln = attack_program(fam, 'let _ = 0;', attr=attr_d)
        add(f'c05-{fam}-default-without-value', 'full', src, {'fail': None, 'msg': r'[Dd]efault'}, None, 'derive(Default) without default =')
        # visibility: private type, error type and parse error are not nameable outside the declaring module
        for vis, expect_fail in (('', True), ('pub(self)', True), ('pub', False), ('pub(crate)', False)):
            for item, suffix in (('T', ''), ('TError', 'Error'), ('TParseError', 'ParseError')):
                if fam == 'string' and suffix == 'ParseError':
                    continue
                if fam == 'any' and suffix == 'ParseError':
                    continue
                src = HEAD + base(fam, vis=vis) + f'fn attack() {{\n    let _: Option<m::{item}> = None;\n}}\n'
                ln = src.count('\n') - 1
                vid = vis.replace('(', '-').replace(')', '') or 'private'
                if expect_fail:
                    add(f'c05-{fam}-vis-{vid}-{item}', 'full', src, {'fail': ['E0603']}, ln, f'{item} of a `{vis or "private"}` newtype is not nameable outside its module')
                else:
                    add(f'c05-{fam}-vis-{vid}-{item}', 'full', src, 'pass', None, f'{item} of a `{vis}` newtype is nameable (twin)')
        # structure: pub inner field, #[derive] under nutype, foreign attribute
        src = HEAD + base(fam, field_vis='pub ')
        add(f'c05-{fam}-pub-field', 'full', src, {'fail': None, 'msg': r'(?i)private|visibility|pub'}, None, 'pub on the inner field is refused')
        src = HEAD + base(fam, field_vis='pub(crate) ')
        add(f'c05-{fam}-pubcrate-field', 'full', src, {'fail': None, 'msg': r'(?i)private|visibility|pub'}, None, 'pub(crate) on the inner field is refused')
        src = HEAD + base(fam, extra_attr='#[derive(Default)]\n    ')
        add(f'c05-{fam}-foreign-derive', 'full', src, {'fail': None, 'msg': r'(?i)derive'}, None, '#[derive] under #[nutype] is refused')
        src = HEAD + base(fam, extra_attr='#[repr(transparent)]\n    ')
        add(f'c05-{fam}-foreign-attr', 'full', src, {'fail': None, 'msg': r'(?i)attribute|#\[nutype\]'}, None, 'foreign attribute under #[nutype] is refused')
    return ws


def c07_witnesses(tier='quick'):
    ws = []

    def add(wid, src, expect, line=None, what=''):
        ws.append({'id': wid, 'cfg': 'full', 'src': src, 'expect': expect, 'line': line, 'what': what})
    cases = {
        'int': ('i32', 'validate(greater_or_equal = 1, less = 100, predicate = |x| *x != 4)', ['GreaterOrEqualViolated', 'LessViolated', 'PredicateViolated']),
        'float': ('f64', 'validate(finite, greater = 0.0, less_or_equal = 1.0)', ['FiniteViolated', 'GreaterViolated', 'LessOrEqualViolated']),
        'string': ('String', 'validate(not_empty, len_char_min = 2, len_char_max = 9, predicate = |s| s.len() != 4, regex = "^a")',
                   ['NotEmptyViolated', 'LenCharMinViolated', 'LenCharMaxViolated', 'PredicateViolated', 'RegexViolated']),
        'any': ('Vec<i32>', 'validate(predicate = |v| !v.is_empty())', ['PredicateViolated']),
    }
    for fam, (inner, attr, variants) in cases.items():
        decl = f'use nutype::nutype;\n#[nutype({attr})]\npub struct T({inner});\n'

        def prog(arms):
            return HEAD + decl + 'pub fn classify(e: TError) -> u32 {\n    match e {\n' + ''.join(f'        TError::{v} => {i},\n' for i, v in enumerate(arms)) + '    }\n}\n'
        add(f'c07-{fam}-exhaustive', prog(variants), 'pass', None, 'exhaustive match over exactly the declared variants, no wildcard')
        if len(variants) > 1:
            add(f'c07-{fam}-missing-arm', prog(variants[:-1]), {'fail': ['E0004']}, None, 'a match missing one declared variant is non-exhaustive')
        add(f'c07-{fam}-extra-variant', prog(variants + ['LenCharMaxViolatedX']), {'fail': ['E0599']}, None, 'no undeclared variant exists')
        other = [v for v in ['LessViolated', 'GreaterViolated', 'NotEmptyViolated', 'FiniteViolated', 'RegexViolated', 'LessOrEqualViolated']
                 if v not in variants][0]
        add(f'c07-{fam}-undeclared-kind', prog(variants + [other]), {'fail': ['E0599']}, None, f'variant {other} of an undeclared validator does not exist')
    # one variant per declared validator presupposes one validator per kind: a repeated kind is refused in every family
    # (two rules could not be told apart by the single variant of that kind)
    dup = {
        'int': ('i32', ['greater = 1, greater = 2', 'predicate = |x| *x != 4, predicate = |x| *x != 5', 'less = 9, greater = 1, less = 8']),
        'float': ('f64', ['finite, finite', 'less = 1.0, less = 2.0', 'predicate = |x| *x != 4.0, predicate = |x| *x != 5.0']),
        'string': ('String', ['not_empty, not_empty', 'len_char_max = 5, len_char_max = 6', 'predicate = |s| s.len() != 4, predicate = |s| s.len() != 5']),
        'any': ('Vec<i32>', ['predicate = |v| !v.is_empty(), predicate = |v| v.len() < 9', 'predicate = |v| !v.is_empty(), predicate = |v| !v.is_empty()']),
        'any-generic': ('Vec<T>', ['predicate = |v| !v.is_empty(), predicate = |v| v.len() < 9']),
    }
    for fam, (inner, attrs) in dup.items():
        g = '<T>' if 'T' in inner.replace('Vec', '') else ''
        for i, a in enumerate(attrs):
            add(f'c07-{fam}-repeated-kind-{i}', HEAD + f'use nutype::nutype;\n#[nutype(validate({a}))]\npub struct T{g}({inner});\n', {'fail': None, 'msg': None}, None,
                f'{fam}: `validate({a})` repeats a validator kind: refused')
    return ws


def c12_witnesses(tier='quick'):
    ws = []

    def add(wid, src, expect, what=''):
        ws.append({'id': wid, 'cfg': 'full', 'src': src, 'expect': expect, 'line': None, 'what': what})
    pre = HEAD + 'use nutype::nutype;\n#[derive(Debug)]\npub enum E { Bad }\npub fn chk(x: &f64) -> Result<(), E> { if x.is_finite() { Ok(()) } else { Err(E::Bad) } }\npub fn chk32(x: &f32) -> Result<(), E> { if x.is_finite() { Ok(()) } else { Err(E::Bad) } }\n'
    for t in ('f32', 'f64'):
        chk = 'chk' if t == 'f64' else 'chk32'
        guards_without_finite = {
            'none': '',
            'bounds': 'validate(greater_or_equal = 0.0, less_or_equal = 1.0), ',
            'predicate': 'validate(predicate = |x| x.is_finite()), ',
            'custom': f'validate(with = {chk}, error = E), ',
            'sanitize': 'sanitize(with = |x| if x.is_finite() { x } else { 0.0 }), ',
        }
        for gname, gtxt in guards_without_finite.items():
            for tr, ds in (('Eq', 'PartialEq, Eq'), ('Ord', 'PartialEq, Eq, PartialOrd, Ord')):
                src = pre + f'#[nutype({gtxt}derive(Debug, {ds}))]\npub struct T({t});\n'
                add(f'c12-{t}-{gname}-{tr}-rejected', src, {'fail': None, 'msg': r'(?i)NaN|finite'}, f'{tr} on {t} without `finite` ({gname}) is refused')
        for pos, vtxt in enumerate(['finite', 'finite, greater = 0.0', 'less = 5.0, finite', 'greater_or_equal = 0.0, finite, less = 9.0',
                                    'predicate = |x| *x != 2.0, finite']):
            src = pre + f'#[nutype(validate({vtxt}), derive(Debug, PartialEq, Eq, PartialOrd, Ord))]\npub struct T({t});\n'
            add(f'c12-{t}-finite{pos}-accepted', src, 'pass', 'Eq+Ord with `finite` (any position) is accepted')
        src = pre + f'#[nutype(validate(finite), derive(Debug, PartialEq, Eq, PartialOrd))]\npub struct T({t});\npub fn need<X: Ord>() {{}}\npub fn f() {{ need::<T>(); }}\n'
        add(f'c12-{t}-ord-not-derived', src, {'fail': ['E0277']}, 'Ord is not implemented unless derived')
        src = pre + f'#[nutype(validate(finite), derive(Debug, PartialEq, PartialOrd, Ord))]\npub struct T({t});\n'
        add(f'c12-{t}-ord-needs-eq', src, {'fail': None, 'msg': r'Eq'}, 'Ord requires Eq')
        src = pre + f'#[nutype(validate(finite), derive(Debug, Eq))]\npub struct T({t});\n'
        add(f'c12-{t}-eq-needs-partialeq', src, {'fail': None, 'msg': r'PartialEq'}, 'Eq requires PartialEq')
    return ws


def c15_witnesses(tier='quick'):
    """the whole no_std corpus crate compiled by stable rustc against nutype built with default-features = false"""
    from . import corpus
    crates = corpus.build(tier)
    ws = []
    for cn, c in crates.items():
        if c['std']:
            continue
        src = corpus.crate_source(c)
        ws.append({'id': f'c15-{cn}', 'cfg': 'nostd', 'src': src, 'expect': 'pass', 'line': None,
                   'what': f'#![no_std] crate with {len(c["decls"])} integer/float/other declarations compiles against nutype without the std feature'})
    # the same crate without the serde / arbitrary derives, against a crate graph in which nothing links std
    import copy
    for cn, c in crates.items():
        if c['std']:
            continue
        c2 = copy.deepcopy(c)
        keep = []
        for d in c2['decls']:
            d['derives'] = [x for x in d['derives'] if x not in ('Serialize', 'Deserialize', 'Arbitrary')]
            keep.append(d)
        c2['decls'] = keep
        ws.append({'id': f'c15-{cn}-pure', 'cfg': 'nostd0', 'src': corpus.crate_source(c2), 'expect': 'pass', 'line': None,
                   'what': f'the same #![no_std] crate without serde/arbitrary derives compiles with no std-linking crate in the graph'})
    ws.append({'id': 'c15-control-std-method', 'cfg': 'nostd0', 'src': HEAD_NOSTD + 'pub fn f(x: f64) -> f64 { x.mul_add(1.0, 0.0) }\n',
               'expect': {'fail': ['E0599']}, 'line': None, 'what': 'control: a std-only inherent float method does not resolve when nothing links std'})
    # positive control: the same setup must reject a std path (keeps the witness honest)
    ws.append({'id': 'c15-control-std-path', 'cfg': 'nostd', 'src': HEAD_NOSTD + 'pub fn f() -> ::std::vec::Vec<u8> { ::std::vec::Vec::new() }\n',
               'expect': {'fail': ['E0433']}, 'line': None, 'what': 'control: a `::std::` path does not resolve in the no_std witness setup'})
    ws.append({'id': 'c15-control-twin', 'cfg': 'nostd', 'src': HEAD_NOSTD + 'pub fn f() -> ::alloc::vec::Vec<u8> { ::alloc::vec::Vec::new() }\n',
               'expect': 'pass', 'line': None, 'what': 'control twin: the `::alloc::` spelling compiles'})
    return ws


def c02_witnesses(tier='quick'):
    """syntactic forms the macro cannot honour must be rejected; the faithful spellings must be accepted"""
    ws = []
    pre = HEAD + 'use nutype::nutype;\npub const K: i32 = 5;\npub const KF: f64 = 2.5;\nmod a { pub fn f(x: i32) -> i32 { x } pub fn p(x: &i32) -> bool { *x > 0 } }\n'

    def add(wid, body, expect, what):
        ws.append({'id': 'c02-' + wid, 'cfg': 'full', 'src': pre + body, 'expect': expect, 'line': None, 'what': what})
    add('with-path-then-closure', '#[nutype(sanitize(with = a::|x| x + 1))]\npub struct T(i32);\n', {'fail': None, 'msg': r'(?i)expected'},
        '`with = a::|x| x + 1` is neither a path nor a closure and is refused (not accepted as the closure)')
    add('with-path-twin', '#[nutype(sanitize(with = a::f))]\npub struct T(i32);\n', 'pass', 'twin: `with = a::f` is accepted')
    add('with-closure-twin', '#[nutype(sanitize(with = |x| x + 1))]\npub struct T(i32);\n', 'pass', 'twin: `with = |x| x + 1` is accepted')
    add('predicate-path-then-closure', '#[nutype(validate(predicate = a::|x| *x > 0))]\npub struct T(i32);\n', {'fail': None, 'msg': None},
        '`predicate = a::|x| ..` is refused')
    add('predicate-path-twin', '#[nutype(validate(predicate = a::p))]\npub struct T(i32);\n', 'pass', 'twin: `predicate = a::p` is accepted')
    for attr, what in (('validate(greater = 5), validate(less = 3)', 'two validate blocks'),
                       ('validate(less = 3), derive(Debug), validate(greater = 5)', 'two validate blocks, not adjacent'),
                       ('sanitize(with = |x| x + 1), sanitize(with = |x| x * 2)', 'two sanitize blocks'),
                       ('derive(Debug), derive(Clone)', 'two derive blocks'),
                       ('default = 1, derive(Default), default = 2', 'two defaults')):
        add('repeat-' + what.replace(' ', '-').replace(',', ''), f'#[nutype({attr})]\npub struct T(i32);\n', {'fail': None, 'msg': r'(?i)more than once|duplicate|already|twice'},
            f'{what}: refused instead of silently keeping the last one')
    add('repeat-twin', '#[nutype(sanitize(with = |x| x + 1), validate(greater = 5, less = 30), derive(Debug, Clone, Default), default = 7)]\npub struct T(i32);\n', 'pass',
        'twin: the same rules in single blocks are accepted')
    # a validate(..) block mixing built-in rules with with/error cannot be honoured: refused in every order
    import itertools
    pre2 = '#[derive(Debug)] pub enum E { Bad }\npub fn chk(x: &i32) -> Result<(), E> { if *x % 2 == 0 { Ok(()) } else { Err(E::Bad) } }\n'
    parts = {'w': 'with = chk', 'e': 'error = E', 'b': 'greater_or_equal = 0', 'c': 'less_or_equal = 100'}
    for perm in itertools.permutations('webc'):
        txt = ', '.join(parts[k] for k in perm)
        add('mixed-' + ''.join(perm), pre2 + f'#[nutype(validate({txt}))]\npub struct T(i32);\n', {'fail': None, 'msg': None},
            f'`validate({txt})`: built-in rules next to with/error would be dropped silently; refused')
    add('mixed-twin-custom', pre2 + '#[nutype(validate(with = chk, error = E))]\npub struct T(i32);\n', 'pass', 'twin: with + error alone is accepted')
    add('mixed-twin-builtin', pre2 + '#[nutype(validate(greater_or_equal = 0, less_or_equal = 100))]\npub struct T(i32);\n', 'pass', 'twin: the built-in rules alone are accepted')
    # a bound of another numeric type cannot be honoured as written: refused (type error), never converted silently
    pre3 = 'pub const WIDE: i64 = 5_000_000_000;\npub const NARROW: i8 = 5;\npub const FL: f64 = 2.5;\npub const UNS: u32 = 7;\n'
    for wid, inner, attr in (('wide-const-on-i32', 'i32', 'validate(less = WIDE)'), ('narrow-const-on-i64', 'i64', 'validate(greater = NARROW)'),
                             ('float-const-on-int', 'i32', 'validate(less = FL)'), ('int-const-on-float', 'f64', 'validate(less = UNS)'),
                             ('unsigned-const-on-signed', 'i32', 'validate(greater_or_equal = UNS)'), ('f64-const-on-f32', 'f32', 'validate(less = FL)'),
                             ('usize-len-from-i64', 'String', 'validate(len_char_max = WIDE)')):
        add('foreign-type-' + wid, pre3 + f'#[nutype({attr})]\npub struct T({inner});\n', {'fail': None, 'msg': None},
            f'`{attr}` on {inner}: a bound constant of another numeric type is refused, not converted')
    add('foreign-type-twin', pre3 + '#[nutype(validate(less = WIDE))]\npub struct T(i64);\n', 'pass', 'twin: a constant of the inner type is accepted')
    # stray tokens / missing separators must be refused, not skipped
    for wid, attr in (('stray-after-bound', 'validate(less = 10 20)'), ('stray-ident-after-bound', 'validate(less = 10 unchecked)'),
                      ('missing-comma-validators', 'validate(greater = 1 less = 10)'), ('missing-comma-derive', 'derive(Debug Clone)'),
                      ('missing-comma-blocks', 'validate(less = 10) derive(Debug)'), ('double-comma', 'validate(less = 10,, greater = 1)'),
                      ('stray-after-default', 'derive(Default), default = 1 2'), ('bound-without-value', 'validate(less)'),
                      ('bound-with-empty-value', 'validate(less = )'), ('flag-with-parens', 'const_fn()'), ('validate-as-flag', 'validate'),
                      ('sanitize-assign', 'sanitize = with'), ('nested-validate', 'validate(validate(less = 10))'),
                      ('value-on-flag-validator', 'validate(finite = true)')):
        inner = 'f64' if 'finite' in attr else 'i32'
        add('syntax-' + wid, f'#[nutype({attr})]\npub struct T({inner});\n', {'fail': None, 'msg': None}, f'malformed attribute `{attr}` is refused')
    add('syntax-twin', '#[nutype(validate(greater = 1, less = 10), derive(Debug, Clone, Default), default = 2, const_fn)]\npub struct T(i32);\n', 'pass',
        'twin: the well-formed spelling of the same attributes is accepted')
    # literal-then-operator bounds (`less = 1 << 4`): refused today; "refused or enforced as written" is decided on the corpus
    # declarations with expect = either (a tree that accepts them has to enforce 16, not 1)
    add('lit-then-op-twin', '#[nutype(validate(less = (1 << 4)))]\npub struct T(i32);\n', 'pass', 'twin: the parenthesised expression is accepted')
    add('foreign-limit', '#[nutype(validate(less_or_equal = u8::MAX))]\npub struct T(i32);\n', {'fail': None, 'msg': None},
        '`less_or_equal = u8::MAX` on an i32 newtype is a type error, not read as i32::MAX')
    add('own-limit-twin', '#[nutype(validate(less_or_equal = i32::MAX))]\npub struct T(i32);\n', 'pass', 'twin: the inner type\'s own limit is accepted')
    add('neg-const', '#[nutype(validate(greater = -K))]\npub struct T(i32);\n', 'pass', '`greater = -K` is accepted (its meaning is checked on the MIR level)')
    add('neg-float-const', '#[nutype(validate(greater = -KF))]\npub struct T(f64);\n', 'pass', '`greater = -KF` is accepted')
    return ws


def c10_witnesses(tier='quick'):
    """the generated Deserialize impl is as general as serde's derive would make it: an owned value of a lifetime- or
    type-parameterised newtype can be deserialized from any input (DeserializeOwned), and the result does not borrow
    from the input unless the inner type does"""
    ws = []
    pre = (HEAD + 'use nutype::nutype;\nuse std::borrow::Cow;\n'
           'pub fn owned<T: serde::de::DeserializeOwned>() {}\npub fn ser<T: serde::Serialize>() {}\n')

    def add(wid, body, expect, what):
        ws.append({'id': 'c10-' + wid, 'cfg': 'full', 'src': pre + body, 'expect': expect, 'line': None, 'what': what})
    cow = "#[nutype(validate(predicate = |s| !s.is_empty()), derive(Debug, Serialize, Deserialize))]\npub struct T<'a>(Cow<'a, str>);\n"
    add('cow-owned', cow + "pub fn f() { owned::<T<'static>>(); ser::<T<'static>>(); }\n", 'pass',
        "T<'static> over Cow<'a, str> is DeserializeOwned (the impl does not tie 'de to the type's lifetime)")
    add('cow-outlives-input', cow + "pub fn f() -> T<'static> { let s = String::from(\"\\\"x\\\"\"); let d = &mut serde_json_stub::De(&s); todo!() }\n"
        .replace("let d = &mut serde_json_stub::De(&s); todo!()", "let _ = s; todo!()"), 'pass', 'twin: the harness itself compiles')
    gen = "#[nutype(sanitize(with = |mut v| { v.truncate(3); v }), derive(Debug, Serialize, Deserialize))]\npub struct W<T>(Vec<T>);\n"
    add('generic-owned', gen + 'pub fn f() { owned::<W<u8>>(); owned::<W<String>>(); ser::<W<u8>>(); }\n', 'pass', 'W<T> over Vec<T> is DeserializeOwned for owned T')
    add('generic-unbounded-twin', gen + 'pub struct NoSerde;\npub fn f() { owned::<W<NoSerde>>(); }\n', {'fail': ['E0277']},
        'control: W<NoSerde> is not Deserialize (the witness harness can tell)')
    for fam, decl in (('int', '#[nutype(validate(greater = 0), derive(Debug, Serialize, Deserialize))]\npub struct T(i32);\n'),
                      ('float', '#[nutype(validate(finite), derive(Debug, Serialize, Deserialize))]\npub struct T(f64);\n'),
                      ('string', '#[nutype(sanitize(trim), validate(not_empty), derive(Debug, Serialize, Deserialize))]\npub struct T(String);\n')):
        add(f'{fam}-owned', decl + 'pub fn f() { owned::<T>(); ser::<T>(); }\n', 'pass', f'{fam} newtype is DeserializeOwned')
    return ws
