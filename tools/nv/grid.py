"""C08: the verdict grid. Declarations generated from the documented attribute grammar, each paired
with the verdict of the reference predicate (written from README / docs, Appendix A of DESIGN.md)."""
import itertools

from .witcat import HEAD

PRE = HEAD + '''use nutype::nutype;
pub const K: i32 = 5;
pub const KF: f64 = 2.5;
pub const N: usize = 3;
#[derive(Debug, Clone, PartialEq)]
pub enum E { Bad }
impl core::fmt::Display for E { fn fmt(&self, f: &mut core::fmt::Formatter<'_>) -> core::fmt::Result { write!(f, "bad") } }
impl std::error::Error for E {}
pub fn chk_i(x: &i32) -> Result<(), E> { if *x > 0 { Ok(()) } else { Err(E::Bad) } }
pub fn chk_f(x: &f64) -> Result<(), E> { if *x > 0.0 { Ok(()) } else { Err(E::Bad) } }
pub fn chk_s(x: &str) -> Result<(), E> { if !x.is_empty() { Ok(()) } else { Err(E::Bad) } }
pub fn chk_v(x: &Vec<i32>) -> Result<(), E> { if !x.is_empty() { Ok(()) } else { Err(E::Bad) } }
'''

FAM_INNER = {'int': 'i32', 'float': 'f64', 'string': 'String', 'any': 'Vec<i32>'}
FAM_VALID = {'int': 'greater_or_equal = 1', 'float': 'greater_or_equal = 1.0', 'string': 'not_empty', 'any': 'predicate = |v| !v.is_empty()'}
FAM_SAN = {'int': 'with = |x| x / 2', 'float': 'with = |x| x / 2.0', 'string': 'trim', 'any': 'with = |v| v'}
FAM_DEFAULT = {'int': '7', 'float': '7.5', 'string': '"abc"', 'any': 'vec![1]'}
FAM_CHK = {'int': 'chk_i', 'float': 'chk_f', 'string': 'chk_s', 'any': 'chk_v'}

def wit_features(cfg):
    from . import wit
    return wit.CONFIGS[cfg][1]


ALL_TRAITS = ['Debug', 'Clone', 'Copy', 'PartialEq', 'Eq', 'PartialOrd', 'Ord', 'Hash', 'AsRef', 'Deref', 'Borrow', 'Into', 'Display',
              'FromStr', 'TryFrom', 'From', 'Default', 'IntoIterator', 'Serialize', 'Deserialize', 'Arbitrary', 'JsonSchema']
# prerequisites added so that the single trait under test is the only open question
REQ = {'Copy': ['Clone'], 'Eq': ['PartialEq'], 'Ord': ['PartialEq', 'Eq', 'PartialOrd'], 'PartialOrd': ['PartialEq']}


def sigma_trait(fam, tr, has_validation, has_finite, cfg, custom=False, custom_san=False, pred=False):
    """reference predicate for deriving one trait. returns True (accept) / False (reject) / None (unasserted)"""
    if tr in ('Serialize', 'Deserialize'):
        return cfg == 'full'
    if tr == 'JsonSchema':
        if cfg == 'sch':
            return fam != 'any'
        return False
    if tr == 'Arbitrary':
        if cfg != 'full':
            return False
        if fam == 'any':
            return not has_validation
        if custom or pred:
            return False
        if fam == 'string':
            return not (custom_san and has_validation)
        if fam == 'float':
            return not (custom_san and has_validation)
        return True
    if tr == 'Copy':
        return fam != 'string' and fam != 'any'   # Vec<i32> is not Copy (rustc refuses); String refused by the macro
    if tr == 'Hash':
        return None if fam == 'float' else True
    if tr in ('Eq', 'Ord'):
        if fam == 'float':
            return has_finite
        return True
    if tr == 'From':
        return not has_validation
    if tr == 'Default':
        return None    # depends on `default =`, handled separately
    if tr == 'IntoIterator':
        return fam == 'any'
    if tr in ('Display', 'FromStr'):
        return fam != 'any'     # Vec<i32> implements neither Display nor FromStr: rustc refuses
    return True


def decl_src(fam, attr, inner=None, name='T', generics='', vis='pub', extra=''):
    inner = inner or FAM_INNER[fam]
    return PRE + extra + f'#[nutype({attr})]\n{vis} struct {name}{generics}({inner});\n'


def build(tier='quick'):
    ws = []

    def add(wid, cfg, src, accept, what, msg=None):
        if accept is None:
            return
        ws.append({'id': 'c08-' + wid, 'cfg': cfg, 'src': src, 'expect': 'pass' if accept else {'fail': None, 'msg': msg},
                   'line': None, 'what': what + (' -> accepted' if accept else ' -> refused' + (' by the macro, naming the missing feature' if msg else ''))})

    # ---- derive matrix: trait x family x validation x finite x feature config
    for fam in FAM_INNER:
        for hv in (False, True):
            finites = (False, True) if (fam == 'float' and hv) else (False,)
            for fin in finites:
                for tr in ALL_TRAITS:
                    for cfg in ('full', 'bare', 'sch'):
                        if cfg in ('bare', 'sch') and tr not in ('Serialize', 'Deserialize', 'Arbitrary', 'JsonSchema'):
                            continue
                        acc = sigma_trait(fam, tr, hv, fin, cfg, pred=(fam == 'any' and hv))
                        if tr == 'Default':
                            continue
                        ds = [x for x in REQ.get(tr, []) if sigma_trait(fam, x, hv, fin, cfg) is not False] + [tr]
                        if tr == 'Copy' and 'Clone' not in ds:
                            ds = ['Clone'] + ds
                        vtxt = ''
                        if hv:
                            v = FAM_VALID[fam]
                            if fin:
                                v = 'finite, ' + v
                            vtxt = f'validate({v}), '
                        src = decl_src(fam, f'{vtxt}derive({", ".join(ds)})')
                        # a feature-gated trait whose feature is off must be refused *by the macro* with the message that names
                        # the feature (not by rustc failing to resolve the optional crate later)
                        gate = {'Serialize': 'serde', 'Deserialize': 'serde', 'Arbitrary': 'arbitrary', 'JsonSchema': 'schemars08'}.get(tr)
                        feature_off = gate is not None and gate not in wit_features(cfg)
                        add(f'derive-{fam}-{"v" if hv else "nv"}{"f" if fin else ""}-{tr}-{cfg}', cfg, src, acc,
                            f'{fam}: derive({tr}) with{"" if hv else "out"} validation{" incl. finite" if fin else ""} [{cfg}]',
                            msg=(r'feature `' + gate + '`') if (feature_off and not acc) else None)
        # From + TryFrom together
        add(f'derive-{fam}-from-and-tryfrom', 'full', decl_src(fam, 'derive(From, TryFrom)'), False, f'{fam}: From and TryFrom together')
        # Default with / without default value, with / without derive
        add(f'default-{fam}-derive-without-value', 'full', decl_src(fam, 'derive(Default)'), False, f'{fam}: derive(Default) without default =')
        add(f'default-{fam}-derive-with-value', 'full', decl_src(fam, f'derive(Default), default = {FAM_DEFAULT[fam]}'), True, f'{fam}: derive(Default) with default =')
        add(f'default-{fam}-validated', 'full', decl_src(fam, f'validate({FAM_VALID[fam]}), derive(Default), default = {FAM_DEFAULT[fam]}'), True,
            f'{fam}: derive(Default) with validation and a default')
        # Arbitrary vs custom pieces
        if fam != 'any':
            add(f'arb-{fam}-custom-validation', 'full', decl_src(fam, f'validate(with = {FAM_CHK[fam]}, error = E), derive(Arbitrary)'), False,
                f'{fam}: Arbitrary with custom validation')
            pred = {'int': 'predicate = |x| *x > 0', 'float': 'predicate = |x| *x > 0.0', 'string': 'predicate = |s| !s.is_empty()'}[fam]
            add(f'arb-{fam}-predicate', 'full', decl_src(fam, f'validate({pred}), derive(Arbitrary)'), False, f'{fam}: Arbitrary with predicate')
        if fam == 'string':
            add('arb-string-regex', 'full', decl_src(fam, 'validate(regex = "^a"), derive(Arbitrary)'), False, 'string: Arbitrary with regex')
            add('arb-string-custom-sanitizer-validated', 'full', decl_src(fam, 'sanitize(with = |s| s), validate(not_empty), derive(Arbitrary)'), False,
                'string: Arbitrary with custom sanitizer and validation')
            add('arb-string-custom-sanitizer', 'full', decl_src(fam, 'sanitize(with = |s| s), derive(Arbitrary)'), True,
                'string: Arbitrary with custom sanitizer, no validation (inner arbitrary + new)')
        if fam == 'float':
            add('arb-float-custom-sanitizer-validated', 'full', decl_src(fam, 'sanitize(with = |x| x), validate(finite), derive(Arbitrary)'), False,
                'float: Arbitrary with custom sanitizer and validation')

    # ---- float Eq / Ord: refused unless `finite` is declared, whatever else guards the value
    from . import witcat
    for w in witcat.c12_witnesses(tier):
        if '-rejected' in w['id'] or '-accepted' in w['id'] or 'needs' in w['id']:
            ws.append(dict(w, id='c08-' + w['id']))

    # ---- structure
    for fam in FAM_INNER:
        inner = FAM_INNER[fam]
        attr = 'derive(Debug)'
        add(f'shape-{fam}-ok', 'full', decl_src(fam, attr), True, f'{fam}: plain tuple struct with one private field')
        add(f'shape-{fam}-enum', 'full', PRE + f'#[nutype({attr})]\npub enum T {{ A({inner}) }}\n', False, f'{fam}: enum')
        add(f'shape-{fam}-named', 'full', PRE + f'#[nutype({attr})]\npub struct T {{ x: {inner} }}\n', False, f'{fam}: named-field struct')
        add(f'shape-{fam}-unit', 'full', PRE + f'#[nutype({attr})]\npub struct T;\n', False, f'{fam}: unit struct')
        add(f'shape-{fam}-empty', 'full', PRE + f'#[nutype({attr})]\npub struct T();\n', False, f'{fam}: empty tuple struct')
        add(f'shape-{fam}-pub-field', 'full', PRE + f'#[nutype({attr})]\npub struct T(pub {inner});\n', False, f'{fam}: pub inner field')
        add(f'shape-{fam}-pubcrate-field', 'full', PRE + f'#[nutype({attr})]\npub struct T(pub(crate) {inner});\n', False, f'{fam}: pub(crate) inner field')
        add(f'shape-{fam}-derive-attr', 'full', PRE + f'#[nutype({attr})]\n#[derive(Clone)]\npub struct T({inner});\n', False, f'{fam}: #[derive] below #[nutype]')
        add(f'shape-{fam}-foreign-attr', 'full', PRE + f'#[nutype({attr})]\n#[repr(transparent)]\npub struct T({inner});\n', False, f'{fam}: foreign attribute')
        add(f'shape-{fam}-doc-attr', 'full', PRE + f'#[nutype({attr})]\n/// documented\npub struct T({inner});\n', True, f'{fam}: doc attribute')
        add(f'shape-{fam}-doc-attr-above', 'full', PRE + f'/// documented\n#[nutype({attr})]\npub struct T({inner});\n', True, f'{fam}: doc comment above #[nutype]')

    # ---- unknown / wrong-family / wrong-case names
    sans = {'string': ['trim', 'lowercase', 'uppercase'], 'int': [], 'float': [], 'any': []}
    vals = {'string': ['not_empty', 'len_char_min = 1', 'len_char_max = 9', 'regex = "^a"'],
            'int': ['greater = 1', 'greater_or_equal = 1', 'less = 9', 'less_or_equal = 9'],
            'float': ['greater = 1.0', 'greater_or_equal = 1.0', 'less = 9.0', 'less_or_equal = 9.0', 'finite'], 'any': []}
    for fam in FAM_INNER:
        for of, lst in sans.items():
            for sname in lst:
                add(f'san-{fam}-{sname}', 'full', decl_src(fam, f'sanitize({sname})'), of == fam, f'{fam}: sanitizer `{sname}`')
        for of, lst in vals.items():
            for v in lst:
                ok = (of == fam) or (of in ('int', 'float') and fam in ('int', 'float') and v != 'finite')
                vv = v
                if ok and fam == 'int':
                    vv = v.replace('.0', '')
                if fam == 'float' and of == 'int':
                    vv = v
                add(f'val-{fam}-{v.split(" ")[0]}-{of}', 'full', decl_src(fam, f'validate({vv})'), ok, f'{fam}: validator `{vv}`')
        add(f'san-{fam}-unknown', 'full', decl_src(fam, 'sanitize(squeeze)'), False, f'{fam}: unknown sanitizer')
        add(f'val-{fam}-unknown', 'full', decl_src(fam, 'validate(positive)'), False, f'{fam}: unknown validator')
        add(f'derive-{fam}-unknown', 'full', decl_src(fam, 'derive(Debug, Frobnicate)'), False, f'{fam}: unknown trait')
        add(f'attr-{fam}-unknown', 'full', decl_src(fam, 'derive(Debug), checked'), False, f'{fam}: unknown top-level attribute')
        add(f'val-{fam}-empty', 'full', decl_src(fam, 'validate()'), False, f'{fam}: empty validate()')
        add(f'san-{fam}-with', 'full', decl_src(fam, f'sanitize({FAM_SAN[fam]})'), True, f'{fam}: documented sanitizer')
    for wrong in ('Trim', 'TRIM', 'tRim'):
        add(f'case-san-{wrong}', 'full', decl_src('string', f'sanitize({wrong})'), False, f'string: sanitizer spelled `{wrong}`')
    # every multi-word name in the case styles a lenient name parser might accept: only snake_case is the grammar
    for wrong in ('NotEmpty', 'notEmpty', 'lenCharMax = 3', 'LEN_CHAR_MAX = 3', 'notempty', 'NOTEMPTY', 'Not_Empty', 'lencharmin = 1', 'lencharmax = 3',
                  'LenCharMin = 1', 'LENCHARMAX = 3', 'not_Empty', 'len_charmax = 3'):
        add(f'case-val-{wrong.split(" ")[0]}', 'full', decl_src('string', f'validate({wrong})'), False, f'string: validator spelled `{wrong}`')
    for wrong in ('Finite', 'greaterOrEqual = 1.0', 'GreaterOrEqual = 1.0', 'greaterorequal = 1.0', 'lessorequal = 1.0', 'GREATER_OR_EQUAL = 1.0', 'FINITE',
                  'lessOrEqual = 1.0', 'LESSOREQUAL = 1.0', 'greater_orequal = 1.0'):
        add(f'case-fval-{wrong.split(" ")[0]}', 'full', decl_src('float', f'validate({wrong})'), False, f'float: validator spelled `{wrong}`')
    for wrong in ('greaterorequal = 1', 'lessorequal = 9', 'GreaterOrEqual = 1', 'LESS_OR_EQUAL = 9', 'Greater = 1', 'LESS = 9', 'Predicate = |x| *x > 0'):
        add(f'case-ival-{wrong.split(" ")[0]}', 'full', decl_src('int', f'validate({wrong})'), False, f'int: validator spelled `{wrong}`')
    for wrong in ('Predicate = |v| !v.is_empty()', 'PREDICATE = |v| !v.is_empty()', 'With = |v| v'):
        add(f'case-aval-{wrong.split(" ")[0]}', 'full', decl_src('any', (f'validate({wrong})' if 'ith' not in wrong else f'sanitize({wrong})')), False,
            f'any: item spelled `{wrong}`')
    for wrong in ('LOWERCASE', 'Lowercase', 'lowerCase', 'lower_case', 'UpperCase', 'upper_case', 'With = |s| s'):
        add(f'case-san2-{wrong.split(" ")[0]}', 'full', decl_src('string', f'sanitize({wrong})'), False, f'string: sanitizer spelled `{wrong}`')
    for wrong in ('debug', 'DEBUG', 'asref'):
        add(f'case-derive-{wrong}', 'full', decl_src('int', f'derive({wrong})'), False, f'int: trait spelled `{wrong}`')

    # ---- duplicates, lowercase + uppercase
    add('dup-san-trim', 'full', decl_src('string', 'sanitize(trim, trim)'), False, 'string: duplicate sanitizer')
    add('dup-san-with', 'full', decl_src('int', 'sanitize(with = |x| x, with = |x| x)'), False, 'int: duplicate `with` sanitizer')
    add('lower-and-upper', 'full', decl_src('string', 'sanitize(lowercase, uppercase)'), False, 'string: lowercase + uppercase')
    add('upper-and-lower', 'full', decl_src('string', 'sanitize(uppercase, trim, lowercase)'), False, 'string: uppercase + lowercase')
    for fam, v in (('int', 'less = 3, less = 4'), ('int', 'greater = 1, greater_or_equal = 1'), ('int', 'less = 9, less_or_equal = 9'),
                   ('float', 'finite, finite'), ('float', 'greater = 1.0, greater = 2.0'), ('string', 'not_empty, not_empty'),
                   ('string', 'len_char_max = 3, len_char_max = 4'), ('int', 'predicate = |x| *x > 0, predicate = |x| *x > 1')):
        add(f'dup-val-{fam}-{v.split(" ")[0]}-{v.split(", ")[1].split(" ")[0]}', 'full', decl_src(fam, f'validate({v})'), False, f'{fam}: duplicate/overlapping validators `{v}`')

    # ---- literal bounds in every relative position
    lowers, uppers = ['greater', 'greater_or_equal'], ['less', 'less_or_equal']
    for fam, fmt in (('int', lambda x: str(x)), ('float', lambda x: f'{x}.0')):
        for lo, up in itertools.product(lowers, uppers):
            for a, b in ((1, 9), (5, 6), (5, 5), (6, 5), (-9, -1), (-1, -9), (0, 0)):
                if fam == 'int':
                    lo_v = a + 1 if lo == 'greater' else a
                    hi_v = b - 1 if up == 'less' else b
                    nonempty = lo_v <= hi_v
                else:
                    if lo == 'greater_or_equal' and up == 'less_or_equal':
                        nonempty = a <= b
                    else:
                        nonempty = a < b
                for order in (0, 1):
                    vs = [f'{lo} = {fmt(a)}', f'{up} = {fmt(b)}']
                    if order:
                        vs.reverse()
                    add(f'bounds-{fam}-{lo}-{up}-{a}-{b}-{order}'.replace('-', '_', 0), 'full', decl_src(fam, f'validate({", ".join(vs)})'), nonempty,
                        f'{fam}: `{", ".join(vs)}` (valid set {"non-empty" if nonempty else "empty"})')
                    if tier != 'thorough':
                        break
    for a, b, ok in ((2, 5, True), (5, 5, True), (6, 5, False), (0, 0, True)):
        for order in (0, 1):
            vs = [f'len_char_min = {a}', f'len_char_max = {b}']
            if order:
                vs.reverse()
            add(f'bounds-string-{a}-{b}-{order}', 'full', decl_src('string', f'validate({", ".join(vs)})'), ok, f'string: `{", ".join(vs)}`')
    # the same literal bounds forwarded by a user's macro_rules! as `expr` / `literal` / `tt` fragments: the macro still sees
    # literals (through the invisible group of an `expr` fragment) and must refuse the contradictory ones
    for frag in ('expr', 'literal', 'tt'):
        for fam, inner, lo_k, up_k, good, bad in (('int', 'i32', 'greater_or_equal', 'less_or_equal', ('0', '100'), ('100', '0')),
                                                  ('float', 'f64', 'greater', 'less', ('0.5', '1.5'), ('1.5', '0.5')),
                                                  ('string', 'String', 'len_char_min', 'len_char_max', ('2', '5'), ('6', '5'))):
            for (a, b), ok in ((good, True), (bad, False)):
                src = PRE + (f'macro_rules! ranged {{ ($lo:{frag}, $hi:{frag}) => {{\n#[nutype(validate({lo_k} = $lo, {up_k} = $hi))]\npub struct T({inner});\n}}; }}\n'
                             f'ranged!({a}, {b});\n')
                add(f'bounds-via-macro-{frag}-{fam}-{"ok" if ok else "contradictory"}', 'full', src, ok,
                    f'{fam}: `{lo_k} = {a}, {up_k} = {b}` forwarded by macro_rules as `{frag}` fragments')
    # bounds written as large non-decimal literals (typed by inference from the inner type)
    add('bounds-u64-big-hex', 'full', decl_src('int', 'validate(less = 0xFF_FFFF_FFFF)', inner='u64'), True, 'u64: `less = 0xFF_FFFF_FFFF`')
    add('bounds-i128-big-expr', 'full', decl_src('int', 'validate(less_or_equal = (2_000_000_000 + 2_000_000_000))', inner='i128'), True, 'i128: sum of unsuffixed literals above i32::MAX')
    add('bounds-u128-shift', 'full', decl_src('int', 'validate(greater_or_equal = (1 << 100))', inner='u128'), True, 'u128: `greater_or_equal = (1 << 100)`')
    add('bounds-string-big-hex', 'full', decl_src('string', 'validate(len_char_max = 0x1_0000_0000)'), True, 'string: `len_char_max = 0x1_0000_0000`')
    add('bounds-f32-big', 'full', decl_src('float', 'validate(less = 1e38)', inner='f32'), True, 'f32: `less = 1e38`')
    # expression bounds cannot be evaluated by the macro: accepted (the generated unit test guards them)
    add('bounds-int-expr-contradict', 'full', decl_src('int', 'validate(greater_or_equal = K * 2, less_or_equal = K)'), True, 'int: contradictory expression bounds are accepted at compile time')
    add('bounds-float-expr-contradict', 'full', decl_src('float', 'validate(greater_or_equal = KF * 2.0, less_or_equal = KF)'), True, 'float: contradictory expression bounds accepted at compile time')

    # ---- with / error pairing
    for fam in FAM_INNER:
        c = FAM_CHK[fam]
        add(f'custom-{fam}-ok', 'full', decl_src(fam, f'validate(with = {c}, error = E)'), True, f'{fam}: with + error')
        add(f'custom-{fam}-error-first', 'full', decl_src(fam, f'validate(error = E, with = {c})'), True, f'{fam}: error + with')
        add(f'custom-{fam}-with-only', 'full', decl_src(fam, f'validate(with = {c})'), False, f'{fam}: with without error')
        add(f'custom-{fam}-error-only', 'full', decl_src(fam, 'validate(error = E)'), False, f'{fam}: error without with')
        parts = {'w': f'with = {c}', 'e': 'error = E', 'b': FAM_VALID[fam]}
        for perm in itertools.permutations('web'):
            txt = ', '.join(parts[k] for k in perm)
            add(f'custom-{fam}-mixed-{"".join(perm)}', 'full', decl_src(fam, f'validate({txt})'), False, f'{fam}: with/error mixed with a built-in validator, order `{txt}`')
        for perm in itertools.permutations('wb'):
            txt = ', '.join(parts[k] for k in perm)
            add(f'custom-{fam}-mixed-noerror-{"".join(perm)}', 'full', decl_src(fam, f'validate({txt})'), False, f'{fam}: `with` plus a built-in validator without `error`, order `{txt}`')
        for perm in itertools.permutations('eb'):
            txt = ', '.join(parts[k] for k in perm)
            add(f'custom-{fam}-mixed-nowith-{"".join(perm)}', 'full', decl_src(fam, f'validate({txt})'), False, f'{fam}: `error` plus a built-in validator without `with`, order `{txt}`')
        add(f'custom-{fam}-dup-with', 'full', decl_src(fam, f'validate(with = {c}, with = {c}, error = E)'), False, f'{fam}: duplicate with')
        add(f'custom-{fam}-dup-error', 'full', decl_src(fam, f'validate(with = {c}, error = E, error = E)'), False, f'{fam}: duplicate error')

    # ---- regex
    add('regex-valid-literal', 'full', decl_src('string', 'validate(regex = "^[a-z]+$")'), True, 'string: valid regex literal')
    add('regex-invalid-literal', 'full', decl_src('string', 'validate(regex = "(")'), False, 'string: invalid regex literal')
    add('regex-invalid-literal2', 'full', decl_src('string', 'validate(regex = "[a-")'), False, 'string: invalid regex literal (unclosed class)')
    add('regex-path', 'full', PRE + 'static RE: std::sync::LazyLock<regex::Regex> = std::sync::LazyLock::new(|| regex::Regex::new("^a").unwrap());\n'
        '#[nutype(validate(regex = RE))]\npub struct T(String);\n', True, 'string: regex given as a static path')
    add('regex-without-feature', 'bare', decl_src('string', 'validate(regex = "^a")'), False, 'string: regex without the `regex` feature')
    add('regex-number', 'full', decl_src('string', 'validate(regex = 5)'), False, 'string: regex = number')

    # ---- flags and features
    for fam in FAM_INNER:
        add(f'flag-{fam}-new-unchecked-full', 'full', decl_src(fam, 'new_unchecked'), True, f'{fam}: new_unchecked with the feature')
        add(f'flag-{fam}-new-unchecked-bare', 'bare', decl_src(fam, 'new_unchecked'), False, f'{fam}: new_unchecked without the feature')
        if fam != 'string':
            add(f'flag-{fam}-const-fn', 'full', decl_src(fam if fam != 'any' else 'int', f'const_fn, validate({FAM_VALID[fam if fam != "any" else "int"]})'), True, f'{fam}: const_fn')
    add('flag-const-fn-value', 'full', decl_src('int', 'const_fn = true'), False, 'const_fn takes no value')

    # ---- type and type-parameter names that generated code also uses
    tnames = ['T', 'E', 'S', 'D', 'DE', 'F', 'H', 'V', 'Value', 'Error', 'Self_', 'Visitor']
    for nm in tnames:
        for ds in ('Debug, Clone', 'Debug, Serialize', 'Debug, Deserialize', 'Debug, Serialize, Deserialize', 'Debug, Hash, PartialEq, Display, FromStr'):
            if 'Display' in ds:
                src = PRE + f'#[nutype(derive({ds}))]\npub struct W<{nm}: core::fmt::Display + core::str::FromStr + core::hash::Hash + PartialEq + core::fmt::Debug>({nm});\n'
            else:
                src = PRE + f'#[nutype(derive({ds}))]\npub struct W<{nm}>(Vec<{nm}>);\n'
            add(f'tparam-{nm}-{ds.replace(", ", "_")}', 'full', src, True, f'generic newtype with type parameter `{nm}` deriving {ds}')
    for nm in ('Error', 'Value', 'Visitor', 'Vec', 'Self_', 'T', 'E', 'S', 'D'):
        if nm == 'String':
            continue
        src = PRE + f'mod z {{ use nutype::nutype;\n#[nutype(validate(greater = 0), derive(Debug, Display, FromStr, TryFrom, Serialize, Deserialize, Default), default = 1)]\npub struct {nm}(i32);\n}}\n'
        add(f'tname-{nm}', 'full', src, True, f'newtype named `{nm}`')
    # new_unchecked on a generic newtype
    add('generic-new-unchecked', 'full', PRE + '#[nutype(new_unchecked, derive(Debug))]\npub struct W<T>(Vec<T>);\n', True, 'new_unchecked on a generic newtype')
    add('generic-bounds-into', 'full', PRE + '#[nutype(derive(Debug, Clone, Into, AsRef, Deref, Borrow, From))]\npub struct W<T: Clone>(Option<T>);\n', True,
        'generic newtype with a trait bound deriving Into/AsRef/Deref/Borrow/From')
    add('generic-two-bounds-tryfrom', 'full', PRE + '#[nutype(validate(predicate = |v| !v.is_empty()), derive(Debug, Clone, Into, TryFrom, IntoIterator))]\npub struct W<T: Clone + PartialEq>(Vec<T>);\n', True,
        'generic newtype with two trait bounds deriving Into/TryFrom/IntoIterator')
    add('generic-lifetime', 'full', PRE + "#[nutype(derive(Debug, Clone, AsRef), validate(predicate = |s| !s.is_empty()))]\npub struct W<'a>(std::borrow::Cow<'a, str>);\n", True,
        'newtype with a lifetime parameter')
    add('generic-bounds', 'full', PRE + '#[nutype(derive(Debug, Clone, PartialEq, PartialOrd), validate(predicate = |v| !v.is_empty()), sanitize(with = |mut v| { v.sort(); v }))]\npub struct W<T: Ord>(Vec<T>);\n', True,
        'generic newtype with a bound, sanitizer and validator')
    # ---- two bounds on the same side (`greater` next to `greater_or_equal`, `less` next to `less_or_equal`) cannot both be
    # "the" bound: refused whether they are literals or expressions, in either order
    for fam, lo, hi in (('int', ('5', 'K'), ('90', 'K * 20')), ('float', ('0.5', 'KF'), ('90.0', 'KF * 20.0'))):
        for (k1, k2, vals) in (('greater', 'greater_or_equal', lo), ('less', 'less_or_equal', hi)):
            for a in vals:
                for b in vals:
                    for order in ((k1, k2), (k2, k1)):
                        other = 'less = 1000' if k1 == 'greater' else 'greater = -1000'
                        attr = f'validate({order[0]} = {a}, {order[1]} = {b}, {other})'
                        add(f'same-side-{fam}-{order[0]}-{a}-{order[1]}-{b}'.replace(' ', '').replace('*', 'x'), 'full', decl_src(fam, attr), False,
                            f'{fam}: `{attr}` bounds the same side twice')
    # ---- the user's module defines items named like things the templates mention (not prelude names: those cannot be
    # shadowed without breaking every derive): a crate-local `Result` alias and `Error` type are common in real crates.
    # The templates must keep naming theirs by full path.
    env = (HEAD + 'use nutype::nutype;\npub type Result<T> = ::core::result::Result<T, MyErr>;\npub struct MyErr;\npub struct Error;\n'
           'pub struct Ordering;\npub struct Formatter;\npub struct Unstructured;\npub struct Regex;\npub struct Visitor;\npub struct Deserializer;\n'
           'pub struct Serializer;\npub mod fmt {}\npub mod cmp {}\npub mod convert {}\npub mod str {}\n')
    env_decls = {
        'string': '#[nutype(sanitize(trim, lowercase), validate(not_empty, len_char_max = 10), derive(Debug, Clone, PartialEq, Eq, PartialOrd, Ord, Hash, AsRef, Deref, '
                  'Borrow, Into, TryFrom, FromStr, Display, Default, Serialize, Deserialize, Arbitrary), default = "abc", new_unchecked)]\npub struct T(String);\n',
        'string-regex': '#[nutype(validate(regex = "^a+$"), derive(Debug, TryFrom, FromStr, Deserialize))]\npub struct T(String);\n',
        'int': '#[nutype(validate(greater = 1, less_or_equal = 100), derive(Debug, Clone, Copy, PartialEq, Eq, PartialOrd, Ord, Hash, AsRef, Deref, Borrow, Into, TryFrom, '
               'FromStr, Display, Default, Serialize, Deserialize, Arbitrary), default = 5)]\npub struct T(i32);\n',
        'float': '#[nutype(validate(finite, greater = 1.0, less_or_equal = 100.0), derive(Debug, Clone, Copy, PartialEq, Eq, PartialOrd, Ord, AsRef, Deref, Borrow, Into, '
                 'TryFrom, FromStr, Display, Default, Serialize, Deserialize, Arbitrary), default = 5.0)]\npub struct T(f64);\n',
        'any': '#[nutype(validate(predicate = |v| v.len() < 3), derive(Debug, Clone, PartialEq, AsRef, Deref, Into, TryFrom, Serialize, Deserialize, IntoIterator))]\n'
               'pub struct T(::std::vec::Vec<u8>);\n',
        'plain': '#[nutype(derive(Debug, Clone, PartialEq, AsRef, Deref, Into, From, FromStr, Display, Serialize, Deserialize, Arbitrary, Default), default = 1)]\n'
                 'pub struct T(u8);\n',
    }
    for k, dsrc in env_decls.items():
        add(f'env-shadowed-names-{k}', 'full', env + dsrc, True,
            f'{k}: declaration in a module that defines its own Result alias, Error, Ordering, Formatter, Regex, Visitor, fmt, cmp, ...')
    return ws
