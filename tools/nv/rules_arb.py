"""Rules on derived Arbitrary (C09, C14): range containment / equality, panic-row feasibility."""
import math
import re
import struct

from . import sym
from .sym import show, const_value
from .rules import (fold_trivial_call, cname, cpath, ctrait, strip_view, is_ok, is_err, is_adt, decl_key, walk, contains, truth,
                    OPSET, norm_check)
from .corpus import int_min, int_max


def arb_impl(g):
    for i in g.impls:
        tr = i.get('trait', '')
        if tr.endswith('Arbitrary') and tr.startswith('arbitrary') and g.self_kind(i) == 'T':
            return i
    return None


def sigma_int_range(d):
    t = d['inner']
    lo, hi = int_min(t), int_max(t)
    for v in d['validators']:
        if v.get('value') is None:
            if v['kind'] in ('greater', 'greater_or_equal', 'less', 'less_or_equal'):
                return None
            continue
        if v['kind'] == 'greater':
            lo = max(lo, v['value'] + 1)
        elif v['kind'] == 'greater_or_equal':
            lo = max(lo, v['value'])
        elif v['kind'] == 'less':
            hi = min(hi, v['value'] - 1)
        elif v['kind'] == 'less_or_equal':
            hi = min(hi, v['value'])
    return lo, hi


def find_int_in_range(ex, outs):
    """the generator call: int_in_range(u, RangeInclusive::new(a, b)) discriminated first on every path"""
    firsts = {o.conds[0][0] for o in outs if o.conds}
    if len(firsts) != 1:
        return None
    c0 = next(iter(firsts))
    if c0[0] != 'discr' or c0[1][0] != 'call':
        return None
    G = c0[1]
    if cname(ex, G) != 'int_in_range' or len(G[2]) != 2:
        return None
    r = G[2][1]
    if r[0] == 'call' and cname(ex, r) == 'new' and 'RangeInclusive' in cpath(ex, r) and len(r[2]) == 2:
        return G, r[2][0], r[2][1]
    return None


def eval_bool_conds_interval(ex, conds, var, lo, hi):
    """is there an integer v in [lo, hi] satisfying every condition of the row? conditions must be
    comparisons of `var` with constants; returns True/False, or None if a condition has another shape"""
    L, H = lo, hi
    for c, val in conds:
        t = truth(val)
        while c[0] == 'un' and c[1] == 'Not':
            c = c[2]
            t = not t
        if c[0] == 'discr':
            continue
        if c[0] != 'bin' or c[1] not in OPSET:
            return None
        a, b = c[2], c[3]
        op = c[1]
        if a == var and b[0] == 'const' and b[2] is not None:
            k = const_value(b)
        elif b == var and a[0] == 'const' and a[2] is not None:
            k = const_value(a)
            op = {'Lt': 'Gt', 'Gt': 'Lt', 'Le': 'Ge', 'Ge': 'Le', 'Eq': 'Eq', 'Ne': 'Ne'}[op]
        else:
            return None
        if not t:
            op = {'Lt': 'Ge', 'Ge': 'Lt', 'Le': 'Gt', 'Gt': 'Le', 'Eq': 'Ne', 'Ne': 'Eq'}[op]
        if op == 'Lt':
            H = min(H, k - 1)
        elif op == 'Le':
            H = min(H, k)
        elif op == 'Gt':
            L = max(L, k + 1)
        elif op == 'Ge':
            L = max(L, k)
        elif op == 'Eq':
            L, H = max(L, k), min(H, k)
        elif op == 'Ne':
            if L == H == k:
                return False
    return L <= H


def check_arbitrary_int_by_evaluation(rep, g, outs, equality):
    """Generators of another shape than `int_in_range(lo..=hi)` that are a function of one integer draw: the outcome rows
    extracted from MIR are evaluated at concrete draws (all 2^8 / 2^16 draws for 8/16-bit draws, the special values of wider
    types). Only concrete witnesses are reported: a draw that reaches a panic row or makes a std operation panic (C09); for
    exhaustively enumerated draws, a valid value that no draw produces (C14). Returns False if the shape is not such a function."""
    d = g.d
    ex = g.ex
    fd = float_draw(ex, outs)
    if fd is None:
        return False
    G, c = fd
    try:
        ty = g.F.tys(c.gargs[0])
    except Exception:
        return False
    if ty not in sym.INT_TYPES:
        return False
    var = ('field', ('downcast', G, 0, 'Ok'), 0)
    w = sym.INT_TYPES[ty]
    lo_t, hi_t = (-(1 << (w - 1)), (1 << (w - 1)) - 1) if ty[0] == 'i' else (0, (1 << w) - 1)
    sr = sigma_int_range(d)
    exhaustive = w <= 16
    if exhaustive:
        draws = range(lo_t, hi_t + 1)
    else:
        pts = {lo_t, lo_t + 1, -1, 0, 1, 2, hi_t - 1, hi_t, hi_t // 2, lo_t // 2, 12345, -12345}
        if sr:
            for b in sr:
                pts |= {b - 1, b, b + 1}
        for k in range(0, w, 7):
            pts |= {1 << k, (1 << k) - 1, -(1 << k)}
        draws = sorted(x for x in pts if lo_t <= x <= hi_t)
    produced = set()
    panic_witness = None
    undecided = None
    rows = [o for o in outs if o.kind in ('return', 'diverge')]
    for raw in draws:
        env = {var: (ty, raw)}
        hit = None
        try:
            for o in rows:
                ok = True
                for cnd, val in o.conds:
                    if cnd[0] == 'discr':
                        if cnd[1] == G:
                            if val != 0:
                                ok = False
                                break
                            continue
                        raise Unknown('discriminant of another call')
                    r = ceval(ex, cnd, env)
                    if bool(r[1]) != truth(val):
                        ok = False
                        break
                if ok:
                    hit = o
                    break
            if hit is None:
                continue
            for e in hit.events:
                if e[0] == 'assert' and len(e) > 4:
                    r = ceval(ex, e[2], env)
                    if bool(r[1]) != bool(e[4]):
                        raise EvalPanic('generated arithmetic check fails: ' + str(e[1])[:80])
            if hit.kind == 'diverge':
                panic_witness = (raw, hit.why)
                break
            if is_ok(hit.ret) and is_adt(hit.ret[4][0]) and len(hit.ret[4][0][4]) == 1:
                produced.add(ceval(ex, hit.ret[4][0][4][0], env)[1])
        except EvalPanic as e:
            panic_witness = (raw, str(e))
            break
        except Unknown as e:
            undecided = str(e)
            break
    if undecided is not None:
        rep.ob('R-ARB-INT', None, g, 'generator is a function of one integer draw, but its rows could not be evaluated', {'why': undecided})
        return True
    rep.ob('R-ARB-PANIC', panic_witness is None, g,
           'no draw reaches a panic of arbitrary' + ('' if exhaustive else ' (special values of the draw type only)'),
           {'draw': panic_witness[0] if panic_witness else None, 'why': panic_witness[1] if panic_witness else None, 'draw_type': ty})
    if equality and sr and sr[0] <= sr[1] and panic_witness is None:
        lo, hi = sr
        if exhaustive and not d['sanitizers']:
            missing = [v for v in range(lo, hi + 1) if v not in produced]
            extra = sorted(v for v in produced if not (lo <= v <= hi))
            rep.ob('R-ARB-INT', not missing and not extra, g, f'the values produced over all {len(draws)} draws are exactly the valid range [{lo}, {hi}]',
                   {'never_produced': missing[:12], 'n_missing': len(missing), 'outside': extra[:6]})
        else:
            rep.ob('R-ARB-INT', None, g, 'generator shape is not int_in_range and the draw type is too wide to enumerate: range equality not decided', {})
    return True


def eval_checked(ex, t, env):
    """`checked_neg/abs/add/sub/mul` of the primitive integers on evaluable operands: (type, value) or (type, None) for None;
    None if t is not such a call"""
    if t[0] != 'call':
        return None
    m = re.search(r'num::<impl ([iu](8|16|32|64|128|size))>::(checked_neg|checked_abs|checked_add|checked_sub|checked_mul)$', cpath(ex, t))
    if not m:
        return None
    ty, op = m.group(1), m.group(3)
    args = [ceval(ex, strip_view(ex, a), env)[1] for a in t[2]]
    w = sym.INT_TYPES[ty]
    lo, hi = (-(1 << (w - 1)), (1 << (w - 1)) - 1) if ty[0] == 'i' else (0, (1 << w) - 1)
    r = {'checked_neg': lambda: -args[0], 'checked_abs': lambda: abs(args[0]), 'checked_add': lambda: args[0] + args[1],
         'checked_sub': lambda: args[0] - args[1], 'checked_mul': lambda: args[0] * args[1]}[op]()
    return (ty, r if lo <= r <= hi else None)


def _draw_domain(ex, F, G, env=None):
    """finite domain of one draw call G, or None: `u.arbitrary::<T>()` for bool / 8-bit integers, `u.int_in_range::<T>(a..=b)`
    with constant end points (at most 4096 values)"""
    c = ex.callees.get(G[1])
    if c is None or not c.gargs:
        return None
    try:
        ty = F.tys(c.gargs[0])
    except Exception:
        return None
    nm = cname(ex, G)
    if nm == 'arbitrary' and len(G[2]) == 1:
        if ty == 'bool':
            return ty, [False, True]
        if ty in sym.INT_TYPES and sym.INT_TYPES[ty] <= 8:
            w = sym.INT_TYPES[ty]
            lo, hi = (-(1 << (w - 1)), (1 << (w - 1)) - 1) if ty[0] == 'i' else (0, (1 << w) - 1)
            return ty, list(range(lo, hi + 1))
        return None
    if nm == 'int_in_range' and len(G[2]) == 2:
        r = G[2][1]
        if r[0] == 'call' and cname(ex, r) == 'new' and 'RangeInclusive' in cpath(ex, r) and len(r[2]) == 2:
            a, b = r[2]
            if ty in sym.INT_TYPES:
                try:
                    lo, hi = ceval(ex, a, env or {})[1], ceval(ex, b, env or {})[1]
                except (Unknown, EvalPanic):
                    return None
                if lo <= hi and hi - lo < 4096:
                    return ty, list(range(lo, hi + 1))
    return None


def check_arbitrary_int_multi_draw(rep, g, outs, equality):
    """generators built from several small draws (a sign and a magnitude, ...): every row is folded for every assignment of
    the draws it mentions. Decides what the single-draw rule decides; gives up (False) when a draw has no small domain."""
    import itertools
    d = g.d
    ex = g.ex
    sr = sigma_int_range(d)
    if d['sanitizers'] or d['custom'] or sr is None or sr[0] > sr[1]:
        return False
    rows = [o for o in outs if o.kind in ('return', 'diverge')]
    produced = set()
    panic = None
    total = 0
    for o in rows:
        draws = []
        for cnd, val in o.conds:
            if cnd[0] == 'discr' and cnd[1][0] == 'call' and cname(ex, cnd[1]) in ('arbitrary', 'int_in_range') and cnd[1] not in draws:
                if val != 0:
                    draws = None       # the Err row of a draw: nothing is produced, nothing can panic later
                    break
                draws.append(cnd[1])
        if draws is None:
            continue
        # conditions on checked operations of constants decide whether the row exists at all
        feasible = True
        for cnd, val in o.conds:
            if cnd[0] == 'discr' and cnd[1] not in draws:
                try:
                    ck = eval_checked(ex, cnd[1], {})
                except (Unknown, EvalPanic):
                    ck = None
                if ck is not None:
                    want_some = (val == 1) or (isinstance(val, tuple) and val[0] == 'not' and 0 in val[1])
                    if (ck[1] is not None) != want_some:
                        feasible = False
        if not feasible:
            continue

        # depth-first over the draws in path order: the domain of a later draw may depend on earlier ones
        def payload(G):
            return ('field', ('downcast', G, 0, 'Ok'), 0)

        def assignments(k, env):
            if k == len(draws):
                yield env
                return
            dm = _draw_domain(ex, g.F, draws[k], env)
            if dm is None:
                raise Unknown('draw without a small domain')
            ty_, vs_ = dm
            for v_ in vs_:
                e2 = dict(env)
                e2[payload(draws[k])] = (ty_, v_)
                yield from assignments(k + 1, e2)
        try:
            for env in assignments(0, {}):
                total += 1
                if total > 300000:
                    return False
                combo = tuple(env[payload(G)][1] for G in draws)
                try:
                    ok = True
                    for cnd, val in o.conds:
                        if cnd[0] == 'discr':
                            if cnd[1] in draws:
                                continue
                            ck = eval_checked(ex, cnd[1], env)
                            if ck is None:
                                return False
                            is_some = ck[1] is not None
                            want_some = (val == 1) or (isinstance(val, tuple) and val[0] == 'not' and 0 in val[1])
                            if is_some != want_some:
                                ok = False
                                break
                            continue
                        r = ceval(ex, cnd, env)
                        if bool(r[1]) != truth(val):
                            ok = False
                            break
                    if not ok:
                        continue
                    for e in o.events:
                        if e[0] == 'assert' and len(e) > 4:
                            r = ceval(ex, e[2], env)
                            if bool(r[1]) != bool(e[4]):
                                raise EvalPanic('generated arithmetic check fails: ' + str(e[1])[:80])
                    if o.kind == 'diverge':
                        panic = (combo, o.why)
                    elif is_ok(o.ret) and is_adt(o.ret[4][0]) and len(o.ret[4][0][4]) == 1:
                        produced.add(ceval(ex, o.ret[4][0][4][0], env)[1])
                except EvalPanic as e:
                    panic = (combo, str(e))
        except Unknown:
            return False
    rep.ob('R-ARB-PANIC', panic is None, g, 'no assignment of the draws reaches a panic of arbitrary (all assignments of the small draws folded)',
           {'draws': list(panic[0]) if panic else None, 'why': panic[1] if panic else None})
    if equality and panic is None:
        lo, hi = sr
        missing = [v for v in range(lo, hi + 1) if v not in produced] if hi - lo < 70000 else None
        extra = sorted(v for v in produced if not (lo <= v <= hi))
        if missing is None:
            rep.ob('R-ARB-INT', None, g, 'valid range too wide to enumerate', {})
        else:
            rep.ob('R-ARB-INT', not missing and not extra, g, f'the values produced over all {total} assignments of the draws are exactly the valid range [{lo}, {hi}]',
                   {'never_produced': missing[:12], 'n_missing': len(missing), 'outside': extra[:6]})
    elif panic is None:
        lo, hi = sr
        extra = sorted(v for v in produced if not (lo <= v <= hi))
        rep.ob('R-ARB-INT', not extra, g, f'every value produced lies in the valid range [{lo}, {hi}]', {'outside': extra[:6]})
    return True


def check_arbitrary_int(rep, g, equality):
    """R-ARB-INT. equality=True: generator range == valid range (C14); always: no reachable panic (C09)"""
    d = g.d
    ex = g.ex
    imp = arb_impl(g)
    if imp is None:
        return
    fn = g.impl_fn(imp, 'arbitrary')
    if fn is None:
        rep.ob('R-ARB-INT', False, g, 'Arbitrary impl without `arbitrary`', {})
        return
    rep.bodies.add(fn['lid'])
    outs = g.paths(fn)
    und = [o for o in outs if o.kind not in ('return', 'diverge')]
    if und:
        rep.ob('R-ARB-INT', None, g, 'arbitrary: some paths could not be followed', {'why': [o.why for o in und][:3]})
    has_guard = bool(d['validators']) or bool(d['custom'])
    sr0 = sigma_int_range(d)
    if equality and sr0 is not None and sr0[0] <= sr0[1] and not d['sanitizers'] and not d['custom'] and not und:
        # range equality presupposes that values come out at all: with a non-empty valid set some path returns Ok(value)
        rep.ob('R-ARB-RET', any(o.kind == 'return' and is_ok(o.ret) for o in outs), g,
               f'the valid set [{sr0[0]}, {sr0[1]}] is not empty, so some path of arbitrary returns a value',
               {'rows': [(o.kind, show(o.ret)[:80] if o.ret else o.why) for o in outs][:4]})
    fi = find_int_in_range(ex, outs)
    if fi is None and check_arbitrary_int_by_evaluation(rep, g, outs, equality):
        return
    if fi is None and has_guard and check_arbitrary_int_multi_draw(rep, g, outs, equality):
        return
    if fi is None:
        if not has_guard and not d['sanitizers']:
            # unconstrained integer: any generator is total; nothing to compare
            rets = [o for o in outs if o.kind == 'return']
            rep.ob('R-ARB-INT', all(o.kind in ('return',) for o in outs) and bool(rets), g, 'unconstrained integer: arbitrary has no panic path', {})
            return
        rep.ob('R-ARB-INT', None, g, 'arbitrary does not start with int_in_range(lo..=hi); generator shape not recognised', {})
        return
    G, a, b = fi
    var = ('field', ('downcast', G, 0, 'Ok'), 0)
    if a[0] != 'const' or a[2] is None or b[0] != 'const' or b[2] is None:
        # endpoints that do not fold (a bound written as a call): compare symbolically with the bound terms the
        # validator checks use: lo = bound | bound + 1, hi = bound | bound - 1
        if d['sanitizers'] or d['custom']:
            rep.ob('R-ARB-INT', None, g, 'generator range endpoints do not fold to constants', {'lo': show(a), 'hi': show(b)})
            return
        ctor = g.ctor()
        oks = [o for o in g.paths(ctor) if o.kind == 'return' and is_ok(o.ret)] if ctor else []
        if len(oks) != 1:
            rep.ob('R-ARB-INT', None, g, 'generator range endpoints do not fold and the constructor has no unique accepting path', {})
            return
        F = oks[0].ret[4][0][4][0]
        chks = [norm_check(ex, c, v, F) for c, v in oks[0].conds]

        def step(t):
            """(base term, offset) of `x`, `x + 1`, `x - 1` as MIR spells them (checked arithmetic)"""
            if t[0] == 'field' and t[2] == 0 and t[1][0] == 'bin' and t[1][1] in ('AddWithOverflow', 'SubWithOverflow') and t[1][3][0] == 'const':
                k = const_value(t[1][3])
                return t[1][2], (k if t[1][1].startswith('Add') else -k)
            if t[0] == 'bin' and t[1] in ('Add', 'Sub') and t[3][0] == 'const':
                k = const_value(t[3])
                return t[2], (k if t[1] == 'Add' else -k)
            return t, 0
        t_ = d['inner']
        want_lo, want_hi = (sym.mk_const(t_, int_min(t_)), 0), (sym.mk_const(t_, int_max(t_)), 0)
        for v, chk in zip(d['validators'], chks):
            if chk.get('kind') != 'cmp':
                continue
            if v['kind'] == 'greater':
                want_lo = (chk['bound'], 1)
            elif v['kind'] == 'greater_or_equal':
                want_lo = (chk['bound'], 0)
            elif v['kind'] == 'less':
                want_hi = (chk['bound'], -1)
            elif v['kind'] == 'less_or_equal':
                want_hi = (chk['bound'], 0)
        def canon(x):
            t0, k = x
            t0 = fold_trivial_call(ex, t0)   # `lim()` on one side and its compile-time value on the other are the same bound
            if t0[0] == 'const' and t0[2] is not None:
                return (sym.mk_const(t0[1], const_value(t0) + k), 0)   # fold the offset; the name of a constant is irrelevant
            return (t0, k)
        got_lo, got_hi = canon(step(a)), canon(step(b))
        want_lo, want_hi = canon(want_lo), canon(want_hi)
        okb = got_lo == want_lo and got_hi == want_hi
        rep.ob('R-ARB-INT', okb, g, 'generator range endpoints are the validators\' bound terms (+1 / -1 for exclusive bounds), compared symbolically',
               {'generator': [show(a)[:120], show(b)[:120]], 'expected': [f'{show(want_lo[0])[:80]} {want_lo[1]:+d}', f'{show(want_hi[0])[:80]} {want_hi[1]:+d}']})
        return
    ga, gb = const_value(a), const_value(b)
    sr = sigma_int_range(d)
    if d['sanitizers'] and has_guard:
        rep.ob('R-ARB-INT', False, g,
               'integer Arbitrary is generated although a custom sanitizer sits between the generated integer and the validators '
               '(the range is computed for the un-sanitized value)', {'range': [ga, gb]},
               site='integer Arbitrary accepted with custom sanitizer and validators')
        return
    if sr is None:
        rep.ob('R-ARB-INT', None, g, 'reference range unknown (bound value not known to the model)', {})
        return
    lo, hi = sr
    if lo > hi:
        return   # premise of C09/C14 (valid set non-empty) does not hold
    rep.ob('R-ARB-INT', ga <= gb, g, 'generator range is non-empty (int_in_range panics otherwise)', {'range': [ga, gb]})
    if equality:
        rep.ob('R-ARB-INT', (ga, gb) == (lo, hi), g,
               f'generator range equals the valid range [{lo}, {hi}]', {'generator': [ga, gb], 'valid': [lo, hi]})
        # the generated integer reaches the canonical constructor unmodified: the outcome table of
        # arbitrary is the constructor's table on the drawn value (rejections panic), plus the Err of the draw
        from .rules import ctor_table, table, map_table, cmp_tables
        dr = ('discr', G)
        ct = ctor_table(g, var)
        want = {('return', ((dr, 1),), sym.mk_err(('field', ('downcast', G, 1, 'Err'), 0)))}

        def lift(k, c, r):
            c2 = ((dr, 0),) + tuple(c)
            if k == 'return' and is_err(r):
                return ('diverge', c2, None)
            if k == 'return' and not g.has_validation():
                return ('return', c2, sym.mk_ok(r))
            return (k, c2, r)
        want |= map_table(ct, lift)
        cmp_tables(rep, 'R-ARB-RET', g, 'arbitrary = draw, then the canonical constructor on the unmodified draw', table(outs), want)
    else:
        rep.ob('R-ARB-INT', lo <= ga and gb <= hi, g, f'generator range is contained in the valid range [{lo}, {hi}]',
               {'generator': [ga, gb], 'valid': [lo, hi]})
    # panic rows: must be infeasible for every v in the generator range
    for o in outs:
        if o.kind != 'diverge':
            continue
        feas = eval_bool_conds_interval(ex, o.conds, var, ga, gb)
        rep.ob('R-ARB-PANIC', (not feas) if feas is not None else None, g,
               'panic path of arbitrary is unreachable for every value of the generator range',
               {'conds': [(show(c)[:120], str(v)) for c, v in o.conds][-3:], 'why': o.why})
    rep.sample({'decl': decl_key(d), 'generator_range': [ga, gb], 'valid_range': [lo, hi]})


# ----------------------------------------------------------------------------- strings

def check_arbitrary_string(rep, g):
    d = g.d
    ex = g.ex
    imp = arb_impl(g)
    if imp is None:
        return
    fn = g.impl_fn(imp, 'arbitrary')
    if fn is None:
        return
    rep.bodies.add(fn['lid'])
    outs = g.paths(fn)
    fi = find_int_in_range(ex, outs)
    mn, mx = 0, None
    for v in d['validators']:
        if v['kind'] == 'not_empty':
            mn = max(mn, 1)
        elif v['kind'] == 'len_char_min' and v.get('value') is not None:
            mn = max(mn, v['value'])
        elif v['kind'] == 'len_char_max' and v.get('value') is not None:
            mx = v['value'] if mx is None else min(mx, v['value'])
    if fi is None:
        if not d['validators'] and not d['custom']:
            rep.ob('R-ARB-STR', all(o.kind == 'return' for o in outs) and bool(outs), g,
                   'string without validation: arbitrary = inner arbitrary + new, no panic path', {'kinds': sorted({o.kind for o in outs})})
            return
        rep.ob('R-ARB-STR', None, g, 'string arbitrary does not start with int_in_range for the target length', {})
        return
    G, a, b = fi
    if a[0] != 'const' or a[2] is None or b[0] != 'const' or b[2] is None:
        rep.ob('R-ARB-STR', None, g, 'target length range does not fold', {})
        return
    ga, gb = const_value(a), const_value(b)
    if mx is not None and mn > mx:
        return
    rep.ob('R-ARB-STR', ga >= mn, g, f'target length lower end {ga} respects the declared minimum {mn}',
           {'target_len': [ga, gb], 'valid_len': [mn, mx]},
           site=f'string Arbitrary target length below the declared minimum ({"not_empty shadows len_char_min" if any(v["kind"] == "not_empty" for v in d["validators"]) else "min"})')
    rep.ob('R-ARB-STR', mx is None or gb <= mx, g, f'target length upper end {gb} respects the declared maximum {mx}',
           {'target_len': [ga, gb], 'valid_len': [mn, mx]})
    rep.ob('R-ARB-STR', ga <= gb, g, 'target length range is non-empty', {})
    kinds = [s['kind'] for s in d['sanitizers']]
    if mx is not None and ('lowercase' in kinds or 'uppercase' in kinds):
        # Case mapping can change the number of chars (U+00DF -> "SS", U+0149 -> 2 chars, U+0130 -> "i̇"), so a
        # generator that measures only the un-mapped text can exceed len_char_max after sanitisation.
        # Structural test: does the generator body itself (not the inlined constructor) mention any case
        # mapping / case predicate at all? If not, it is unaware of the sanitizer.
        aware = False
        for blk in fn['blocks']:
            t = blk['term']
            if t['t'] == 'call' and 'fn' in t['f']:
                nm = t['f']['fn']['name']
                if nm in ('to_lowercase', 'to_uppercase', 'to_ascii_lowercase', 'to_ascii_uppercase', 'is_lowercase', 'is_uppercase',
                          'is_ascii', 'is_ascii_alphanumeric', 'is_ascii_lowercase', 'is_ascii_uppercase') or nm == '__sanitize__':
                    aware = True
        rep.ob('R-ARB-STR', None if aware else False, g,
               'case-mapping sanitizer with len_char_max: the generator measures only the un-mapped text, a character whose '
               'case mapping is longer (e.g. U+00DF) makes try_new reject the generated value and arbitrary panic',
               {'sanitizers': kinds, 'len_char_max': mx},
               site='string Arbitrary ignores case mappings that grow the character count (case sanitizer + len_char_max)')
    check_string_measure_agreement(rep, g, fn, outs, G)
    rep.sample({'decl': decl_key(d), 'target_len': [ga, gb], 'valid_len': [mn, mx]})


def measured_string(ex, m):
    """m = count(chars(view(Y))): returns (root term of Y, [length-relevant ops applied to the root, in order])"""
    from .rules import str_method, is_owning_copy
    if not (m[0] == 'call' and cname(ex, m) == 'count' and len(m[2]) == 1):
        return None
    inner = m[2][0]
    if not (inner[0] == 'call' and str_method(ex, inner, 'chars') and len(inner[2]) == 1):
        return None
    y = strip_view(ex, inner[2][0])
    ops = []
    for _ in range(32):
        if y[0] == 'call' and len(y[2]) == 1:
            if str_method(ex, y, 'trim'):
                ops.append('trim')
            elif str_method(ex, y, 'trim_end') or str_method(ex, y, 'trim_start'):
                ops.append(cname(ex, y))
            elif str_method(ex, y, 'to_lowercase'):
                ops.append('lowercase')
            elif str_method(ex, y, 'to_uppercase'):
                ops.append('uppercase')
            elif is_owning_copy(ex, y) or cname(ex, y) in ('clone', 'into', 'to_string', 'to_owned'):
                pass
            else:
                break
            y = strip_view(ex, y[2][0])
            continue
        break
    return y, list(reversed(ops))


def check_string_measure_agreement(rep, g, fn, outs, G):
    """R-ARB-STR-MEASURE: the quantity the refill loop drives to target_len is the quantity the length validators
    measure (same string, same trimming). Case mappings are the separately recorded finding."""
    d = g.d
    ex = g.ex
    has_len = any(v['kind'] in ('len_char_min', 'len_char_max', 'not_empty') for v in d['validators'])
    if not has_len or 'trim' not in [s['kind'] for s in d['sanitizers']]:
        return
    tl = ('field', ('downcast', G, 0, 'Ok'), 0)
    seen = 0
    for o in outs:
        if o.kind not in ('return', 'diverge'):
            continue
        loop_m = None
        val_ms = []
        for c, v in o.conds:
            if c[0] == 'discr' and c[1][0] == 'call' and cname(ex, c[1]) == 'cmp' and len(c[1][2]) == 2 and v == 0:
                a, b = strip_view(ex, c[1][2][0]), strip_view(ex, c[1][2][1])
                if b == tl:
                    loop_m = a
                elif a == tl:
                    loop_m = b
            cc = c
            while cc[0] == 'un':
                cc = cc[2]
            if cc[0] == 'bin' and cc[1] in OPSET and loop_m is None:
                # the same exit test spelled with comparison operators: `count < target` / `count > target` / `count == target`
                a, b = strip_view(ex, cc[2]), strip_view(ex, cc[3])
                if b == tl and measured_string(ex, a) is not None:
                    loop_m = a
                elif a == tl and measured_string(ex, b) is not None:
                    loop_m = b
            if cc[0] == 'bin' and cc[1] in OPSET:
                for side in (cc[2], cc[3]):
                    ms = measured_string(ex, side)
                    if ms is not None and side != loop_m:
                        val_ms.append(ms)
        if loop_m is None or not val_ms:
            continue
        lm = measured_string(ex, loop_m)
        if lm is None:
            rep.ob('R-ARB-STR', None, g, 'refill loop exit condition does not measure a char count', {'term': show(loop_m)[:200]})
            continue
        seen += 1
        for (root, ops) in val_ms[:1]:
            same_root = root == lm[0]
            l_ops = [x for x in lm[1] if x not in ('lowercase', 'uppercase')]
            v_ops = [x for x in ops if x not in ('lowercase', 'uppercase')]
            rep.ob('R-ARB-STR', same_root and l_ops == v_ops, g,
                   'the refill loop controls the char count of the same (equally trimmed) string that the length validators measure',
                   {'loop_measures': {'ops': lm[1], 'root': show(lm[0])[:120]}, 'validators_measure': {'ops': ops, 'root': show(root)[:120]}})
    if seen == 0:
        rep.ob('R-ARB-STR', None, g, 'no path through the refill loop exit was found; measure agreement not decided', {})


# ----------------------------------------------------------------------------- floats

def fval(t, x):
    """round a python float to the given float type"""
    if t == 'f32':
        try:
            return struct.unpack('<f', struct.pack('<f', x))[0]
        except OverflowError:
            return math.copysign(float('inf'), x)
    return x


class Unknown(Exception):
    pass


KNOWN_CALLS = {}
# interval environment of the row being examined: sub-terms whose interval was narrowed by a comparison on the path
IENV = {}


class EvalPanic(Exception):
    """the std operation itself panics for these operands (division by zero, MIN rem -1, ...)"""


def ceval(ex, t, env):
    """concrete evaluation of a scalar term with the draw(s) bound in env (exact IEEE semantics)"""
    if t in env:
        return env[t]
    tag = t[0]
    if tag == 'const':
        v = const_value(t)
        if v is None:
            raise Unknown('const')
        return (t[1], v)
    if tag == 'call' and not t[2] and cpath(ex, t).split('::')[-1] in KNOWN_CALLS:
        return KNOWN_CALLS[cpath(ex, t).split('::')[-1]]
    if tag == 'field' and t[1][0] == 'downcast' and t[1][1][0] == 'call' and t[1][3] == 'Some':
        r = eval_checked(ex, t[1][1], env)
        if r is None or r[1] is None:
            raise Unknown('payload of None / unknown checked op')
        return r
    if tag == 'cast':
        ty, a = t[2], ceval(ex, t[3], env)
        k = t[1]
        if k == 'IntToFloat' or k == 'FloatToFloat':
            return (ty, fval(ty, float(a[1])))
        if k == 'IntToInt':
            return (ty, sym.int_value(ty, sym.int_wrap(ty, int(a[1]))))
        raise Unknown('cast ' + k)
    if tag == 'bin':
        a, b = ceval(ex, t[2], env), ceval(ex, t[3], env)
        op = t[1]
        ty = a[0]
        x, y = a[1], b[1]
        if op in sym.CMP:
            return ('bool', sym.CMP[op](x, y))
        if ty in sym.INT_TYPES and op in ('Add', 'Sub', 'Mul', 'Div', 'Rem', 'BitAnd', 'BitOr', 'BitXor', 'Shl', 'Shr'):
            w = sym.INT_TYPES[ty]
            if op in ('Div', 'Rem'):
                if y == 0:
                    raise EvalPanic('division by zero')
                q = abs(x) // abs(y) * (1 if (x >= 0) == (y >= 0) else -1)
                r = q if op == 'Div' else x - q * y
            elif op == 'Shl':
                r = x << (y % w)
            elif op == 'Shr':
                r = x >> (y % w)
            else:
                r = {'Add': x + y, 'Sub': x - y, 'Mul': x * y, 'BitAnd': x & y, 'BitOr': x | y, 'BitXor': x ^ y}[op]
            return (ty, sym.int_value(ty, sym.int_wrap(ty, r)))
        if sym.is_float(ty):
            try:
                if op == 'Add':
                    r = x + y
                elif op == 'Sub':
                    r = x - y
                elif op == 'Mul':
                    r = x * y
                elif op == 'Div':
                    if y == 0:
                        r = float('nan') if (x == 0 or x != x) else math.copysign(float('inf'), x) * math.copysign(1.0, y)
                    else:
                        r = x / y
                else:
                    raise Unknown(op)
            except OverflowError:
                r = float('inf')
            return (ty, fval(ty, r))
        raise Unknown('bin ' + op + ' ' + ty)
    if tag == 'un':
        a = ceval(ex, t[2], env)
        if t[1] == 'Neg':
            return (a[0], -a[1])
        if t[1] == 'Not' and a[0] == 'bool':
            return ('bool', not a[1])
        raise Unknown('un')
    if tag == 'field' and t[1][0] == 'bin' and t[1][1].endswith('WithOverflow'):
        a, b = ceval(ex, t[1][2], env), ceval(ex, t[1][3], env)
        ty = a[0]
        if ty in sym.INT_TYPES:
            base = t[1][1][:-len('WithOverflow')]
            r = {'Add': a[1] + b[1], 'Sub': a[1] - b[1], 'Mul': a[1] * b[1]}[base]
            w = sym.INT_TYPES[ty]
            lo, hi = (-(1 << (w - 1)), (1 << (w - 1)) - 1) if ty[0] == 'i' else (0, (1 << w) - 1)
            if t[2] == 0:
                return (ty, sym.int_value(ty, sym.int_wrap(ty, r)))
            return ('bool', not (lo <= r <= hi))
        raise Unknown('checked arithmetic on ' + ty)
    if tag == 'call' and len(t[2]) == 2 and re.search(r'num::<impl [iu](8|16|32|64|128|size)>::(wrapping_add|wrapping_sub|wrapping_mul|wrapping_rem_euclid|rem_euclid|wrapping_rem|wrapping_div|div_euclid)$', cpath(ex, t)):
        a = ceval(ex, strip_view(ex, t[2][0]), env)
        b = ceval(ex, strip_view(ex, t[2][1]), env)
        ty = a[0]
        m = cpath(ex, t).rsplit('::', 1)[1]
        w = sym.INT_TYPES[ty]
        lo = -(1 << (w - 1)) if ty[0] == 'i' else 0
        wrap = lambda r: sym.int_value(ty, sym.int_wrap(ty, r))
        x, y = a[1], b[1]
        if m == 'wrapping_add':
            return (ty, wrap(x + y))
        if m == 'wrapping_sub':
            return (ty, wrap(x - y))
        if m == 'wrapping_mul':
            return (ty, wrap(x * y))
        if y == 0:
            raise EvalPanic(f'{m} by zero')
        if m in ('rem_euclid', 'div_euclid') and ty[0] == 'i' and x == lo and y == -1:
            raise EvalPanic(f'{m} overflows for ({x}, {y})')
        if m in ('wrapping_rem_euclid', 'rem_euclid'):
            return (ty, wrap(x % abs(y)))
        if m == 'div_euclid':
            q = (x - (x % abs(y))) // y
            return (ty, wrap(q))
        if m == 'wrapping_rem':
            return (ty, wrap(abs(x) % abs(y) * (1 if x >= 0 else -1)))
        if m == 'wrapping_div':
            return (ty, wrap(abs(x) // abs(y) * (1 if (x >= 0) == (y >= 0) else -1)))
    if tag == 'call' and len(t[2]) == 2 and (cpath(ex, t).endswith('>::max') or cpath(ex, t).endswith('>::min')):
        a = ceval(ex, strip_view(ex, t[2][0]), env)
        b = ceval(ex, strip_view(ex, t[2][1]), env)
        if a[1] != a[1]:
            return b
        if b[1] != b[1]:
            return a
        return (a[0], max(a[1], b[1]) if cpath(ex, t).endswith('>::max') else min(a[1], b[1]))
    if tag == 'call' and len(t[2]) == 1:
        p = cpath(ex, t)
        a = ceval(ex, strip_view(ex, t[2][0]), env)
        if p.endswith('>::abs'):
            return (a[0], abs(a[1]))
        if p.endswith('>::is_finite'):
            return ('bool', not (math.isinf(a[1]) or a[1] != a[1]))
        if p.endswith('>::is_nan'):
            return ('bool', a[1] != a[1])
        if p.endswith('>::is_infinite'):
            return ('bool', math.isinf(a[1]))
        raise Unknown('call ' + p)
    raise Unknown(tag)


# zero-argument functions of the corpus prelude written as bounds (`less = limf_f64()`): what they return is the corpus's
# own text, recorded with the declaration; set per declaration by the float rule


def ieval(ex, t, var, vty, vlo, vhi):
    """interval evaluation (closed interval, both ends attained or over-approximated) of a scalar term
    that depends on `var` only; every supported operation is monotone and correctly rounded, so the
    image of [vlo, vhi] is contained in the returned interval. Raises Unknown otherwise."""
    if t in IENV:
        return IENV[t]
    if t == var:
        return (vty, vlo, vhi)
    tag = t[0]
    if tag == 'const':
        v = const_value(t)
        if v is None or (isinstance(v, float) and v != v):
            raise Unknown('const')
        return (t[1], v, v)
    if tag == 'cast':
        ty = t[2]
        a = ieval(ex, t[3], var, vty, vlo, vhi)
        if t[1] in ('IntToFloat', 'FloatToFloat'):
            return (ty, fval(ty, float(a[1])), fval(ty, float(a[2])))
        raise Unknown('cast')
    if tag == 'bin':
        op = t[1]
        a = ieval(ex, t[2], var, vty, vlo, vhi)
        b = ieval(ex, t[3], var, vty, vlo, vhi)
        ty = a[0]
        if not sym.is_float(ty):
            raise Unknown('int arithmetic')

        def f(x, y):
            try:
                if op == 'Add':
                    r = x + y
                elif op == 'Sub':
                    r = x - y
                elif op == 'Mul':
                    r = x * y
                elif op == 'Div':
                    if y == 0:
                        raise Unknown('div by zero')
                    r = x / y
                else:
                    raise Unknown(op)
            except OverflowError:
                r = float('inf')
            if r != r:
                raise Unknown('nan')
            return fval(ty, r)
        inf = float('inf')
        # an *interior* combination that is NaN (inf - inf, 0 * inf, inf / inf) is not seen at the corners: refuse
        if op == 'Add' and ((a[2] == inf and b[1] == -inf) or (a[1] == -inf and b[2] == inf)):
            raise Unknown('nan possible')
        if op == 'Sub' and ((a[2] == inf and b[2] == inf) or (a[1] == -inf and b[1] == -inf)):
            raise Unknown('nan possible')
        if op == 'Mul' and ((a[1] <= 0 <= a[2] and (b[1] == -inf or b[2] == inf)) or (b[1] <= 0 <= b[2] and (a[1] == -inf or a[2] == inf))):
            raise Unknown('nan possible')
        if op == 'Div' and (a[1] == -inf or a[2] == inf) and (b[1] == -inf or b[2] == inf):
            raise Unknown('nan possible')
        if op == 'Sub':
            cands = [f(a[1], b[2]), f(a[2], b[1])]
        elif op == 'Add':
            cands = [f(a[1], b[1]), f(a[2], b[2])]
        elif op in ('Mul', 'Div'):
            if op == 'Div' and b[1] <= 0 <= b[2]:
                raise Unknown('div by interval containing zero')
            cands = [f(x, y) for x in (a[1], a[2]) for y in (b[1], b[2])]
        else:
            raise Unknown(op)
        return (ty, min(cands), max(cands))
    if tag == 'un' and t[1] == 'Neg':
        a = ieval(ex, t[2], var, vty, vlo, vhi)
        return (a[0], -a[2], -a[1])
    if tag == 'call' and len(t[2]) == 2 and (cpath(ex, t).endswith('>::max') or cpath(ex, t).endswith('>::min')):
        a = ieval(ex, strip_view(ex, t[2][0]), var, vty, vlo, vhi)
        b = ieval(ex, strip_view(ex, t[2][1]), var, vty, vlo, vhi)
        f = max if cpath(ex, t).endswith('>::max') else min
        return (a[0], f(a[1], b[1]), f(a[2], b[2]))
    if tag == 'call' and len(t[2]) == 1 and cpath(ex, t).endswith('>::abs'):
        a = ieval(ex, strip_view(ex, t[2][0]), var, vty, vlo, vhi)
        lo = 0.0 if a[1] <= 0 <= a[2] else min(abs(a[1]), abs(a[2]))
        return (a[0], lo, max(abs(a[1]), abs(a[2])))
    if tag == 'call' and not t[2] and cpath(ex, t).split('::')[-1] in KNOWN_CALLS:
        ty_, v_ = KNOWN_CALLS[cpath(ex, t).split('::')[-1]]
        return (ty_, v_, v_)
    raise Unknown(tag)


def cond_possible(ex, cnd, val, var, vty, vlo, vhi):
    """can the condition take the given edge for some value of var in [vlo, vhi]? (over-approximation)"""
    t = truth(val)
    c = cnd
    while c[0] == 'un' and c[1] == 'Not':
        c = c[2]
        t = not t
    if c[0] == 'bin' and c[1] in OPSET:
        a = ieval(ex, c[2], var, vty, vlo, vhi)
        b = ieval(ex, c[3], var, vty, vlo, vhi)
        op = c[1]
        # possible outcomes of a (op) b over the two intervals
        can_true = {'Lt': a[1] < b[2], 'Le': a[1] <= b[2], 'Gt': a[2] > b[1], 'Ge': a[2] >= b[1],
                    'Eq': not (a[2] < b[1] or b[2] < a[1]), 'Ne': not (a[1] == a[2] == b[1] == b[2])}[op]
        can_false = {'Lt': a[2] >= b[1], 'Le': a[2] > b[1], 'Gt': a[1] <= b[2], 'Ge': a[1] < b[2],
                     'Eq': not (a[1] == a[2] == b[1] == b[2]), 'Ne': not (a[2] < b[1] or b[2] < a[1])}[op]
        return can_true if t else can_false
    if c[0] == 'call' and len(c[2]) == 1:
        p = cpath(ex, c)
        if p.endswith('>::is_finite'):
            a = ieval(ex, strip_view(ex, c[2][0]), var, vty, vlo, vhi)
            can_true = not (a[1] == a[2] and math.isinf(a[1]))
            can_false = math.isinf(a[1]) or math.isinf(a[2])
            return can_true if t else can_false
    raise Unknown('cond shape')


def refine_by_comparisons(ex, conds, var, vty, vlo, vhi):
    """narrow IENV with the comparisons on the path (all of them hold together): A >= B gives A.lo >= B.lo and
    B.hi <= A.hi, etc. Strict comparisons are treated as non-strict (still an over-approximation). Assumes no operand
    is NaN (established by the caller for the variable; ieval refuses NaN-producing arithmetic). Returns False if some
    comparison cannot hold at all (the row is infeasible)."""
    for _ in range(3):
        for cn, v in conds:
            t = truth(v)
            c = cn
            while c[0] == 'un' and c[1] == 'Not':
                c = c[2]
                t = not t
            if c[0] != 'bin' or c[1] not in ('Lt', 'Le', 'Gt', 'Ge'):
                continue
            try:
                a = ieval(ex, c[2], var, vty, vlo, vhi)
                b = ieval(ex, c[3], var, vty, vlo, vhi)
            except Unknown:
                continue
            if not (sym.is_float(a[0]) and sym.is_float(b[0])):
                continue
            ge = (c[1] in ('Ge', 'Gt')) == t      # the path says A >= B (or >) ; otherwise A <= B (or <)
            if ge:
                na = (a[0], max(a[1], b[1]), a[2])
                nb = (b[0], b[1], min(b[2], a[2]))
            else:
                na = (a[0], a[1], min(a[2], b[2]))
                nb = (b[0], max(b[1], a[1]), b[2])
            if na[1] > na[2] or nb[1] > nb[2]:
                return False
            if c[2][0] != 'const':
                IENV[c[2]] = na
            if c[3][0] != 'const':
                IENV[c[3]] = nb
    return True


def monotone_inc(ex, t, var):
    """is the scalar term a monotone non-decreasing function of var (structurally)? constants count as monotone"""
    if t == var:
        return True
    if t[0] == 'const':
        return const_value(t) is not None
    if t[0] == 'cast' and t[1] in ('IntToFloat', 'FloatToFloat'):
        return monotone_inc(ex, t[3], var)
    if t[0] == 'bin':
        op, a, b = t[1], t[2], t[3]
        ca = const_value(a) if a[0] == 'const' else None
        cb = const_value(b) if b[0] == 'const' else None
        if op == 'Add':
            return monotone_inc(ex, a, var) and monotone_inc(ex, b, var)
        if op == 'Sub':
            return cb is not None and monotone_inc(ex, a, var)
        if op == 'Mul':
            if cb is not None and cb >= 0:
                return monotone_inc(ex, a, var)
            if ca is not None and ca >= 0:
                return monotone_inc(ex, b, var)
            return False
        if op == 'Div':
            return cb is not None and cb > 0 and monotone_inc(ex, a, var)
    return False


def refine_int_draw(ex, conds, var, ty, lo, hi):
    """narrow the interval of an integer draw by the path conditions that compare a monotone function of the draw with a
    constant (exact evaluation + binary search). returns (lo, hi) or None if the conditions exclude every draw"""
    for cn, v in conds:
        t = truth(v)
        c = cn
        while c[0] == 'un' and c[1] == 'Not':
            c = c[2]
            t = not t
        if c[0] != 'bin' or c[1] not in OPSET:
            continue
        a, b = c[2], c[3]
        if not (b[0] == 'const' and monotone_inc(ex, a, var) and contains(a, var)):
            continue

        def holds(r):
            return bool(ceval(ex, c, {var: (ty, r)})[1]) == t
        # truth set of `a(r) op const` for monotone a: Lt/Le -> prefix, Gt/Ge -> suffix; negation swaps them
        prefix = (c[1] in ('Lt', 'Le')) == t
        if c[1] in ('Eq', 'Ne'):
            continue
        try:
            if prefix:
                if not holds(lo):
                    return None
                L, H = lo, hi            # find the largest r with holds(r)
                while L < H:
                    m = (L + H + 1) // 2
                    if holds(m):
                        L = m
                    else:
                        H = m - 1
                hi = L
            else:
                if not holds(hi):
                    return None
                L, H = lo, hi            # find the smallest r with holds(r)
                while L < H:
                    m = (L + H) // 2
                    if holds(m):
                        H = m
                    else:
                        L = m + 1
                lo = L
        except Unknown:
            continue
    return lo, hi


def float_draw(ex, outs):
    """the single draw every path starts with: u.arbitrary::<X>()"""
    firsts = {o.conds[0][0] for o in outs if o.conds}
    if len(firsts) != 1:
        return None
    c0 = next(iter(firsts))
    if c0[0] == 'discr' and c0[1][0] == 'call' and cname(ex, c0[1]) == 'arbitrary' and len(c0[1][2]) == 1:
        c = ex.callees.get(c0[1][1])
        ty = g_ty = None
        if c is not None and c.gargs:
            return c0[1], c
    return None


F32_SPECIALS = [0.0, -0.0, 1.0, -1.0, 1e-45, -1e-45, 3.4028234663852886e38, -3.4028234663852886e38, float('inf'), float('-inf'),
                0.5, 2.0, 100.0, 1e10, -1e10, 1.1754943508222875e-38]
F64_SPECIALS = [0.0, -0.0, 1.0, -1.0, 5e-324, -5e-324, 1.7976931348623157e308, -1.7976931348623157e308, float('inf'), float('-inf'),
                0.5, 2.0, 100.0, 1e10, -1e10, 2.2250738585072014e-308, 1e300, -1e300]


def draw_samples(F, c):
    """attained sample points of the draw: endpoints and special values of its type"""
    ty = F.tys(c.gargs[0])
    if ty in sym.INT_TYPES:
        w = sym.INT_TYPES[ty]
        if ty[0] == 'u':
            pts = [0, 1, 2, (1 << w) - 1, (1 << w) - 2, 1 << (w - 1), (1 << w) // 3, 12345]
            # a fixed spread over the draw type: 48 equidistant points, the first bytes of short inputs, a fixed LCG sequence
            pts += [k * ((1 << w) // 48) + k for k in range(1, 48)]
            pts += [b << (w - 8) for b in (0x0c, 0x81, 0x33, 0x7f, 0xc5)] + [0x0c, 0x81, 0x0c00]
            x = 0x9E3779B97F4A7C15
            for _ in range(40):
                x = (x * 6364136223846793005 + 1442695040888963407) & ((1 << 64) - 1)
                pts.append(x >> (64 - w) if w <= 64 else x)
            seen = set()
            return ty, [p for p in pts if 0 <= p < (1 << w) and not (p in seen or seen.add(p))]
        return ty, [0, 1, -1, (1 << (w - 1)) - 1, -(1 << (w - 1))]
    if ty == 'f32':
        return ty, [fval('f32', x) for x in F32_SPECIALS]
    if ty == 'f64':
        return ty, list(F64_SPECIALS)
    return ty, []


def check_arbitrary_float(rep, g):
    """R-ARB-FLT: every panic row of `arbitrary` that is a function of the first draw only is evaluated at the
    attained special values of that draw (exact IEEE arithmetic in the declared float type); a row that is
    satisfied by a concrete draw is a reachable panic."""
    d = g.d
    ex = g.ex
    imp = arb_impl(g)
    if imp is None:
        return
    fn = g.impl_fn(imp, 'arbitrary')
    if fn is None:
        return
    rep.bodies.add(fn['lid'])
    outs = g.paths(fn)
    fd = float_draw(ex, outs)
    if fd is None:
        rep.ob('R-ARB-FLT', None, g, 'float arbitrary does not start with a single draw; generator shape not recognised', {})
        return
    G, c = fd
    var = ('field', ('downcast', G, 0, 'Ok'), 0)
    ty, samples = draw_samples(g.F, c)
    KNOWN_CALLS.clear()
    for v in d['validators']:
        if v.get('form') == 'call' and isinstance(v.get('value'), (int, float)) and v.get('text', '').endswith('()'):
            KNOWN_CALLS[v['text'][:-2].split('::')[-1]] = (d['inner'], fval(d['inner'], float(v['value'])))
    nrows = 0
    for o in outs:
        if o.kind != 'diverge':
            continue
        nrows += 1
        witness = None
        undecidable = None
        for s in samples:
            env = {var: (ty, s)}
            try:
                sat = True
                for cnd, val in o.conds:
                    if cnd[0] == 'discr':
                        if cnd[1] == G:
                            if val != 0:
                                sat = False
                            continue
                        raise Unknown('discr of another call')
                    r = ceval(ex, cnd, env)
                    if bool(r[1]) != truth(val):
                        sat = False
                        break
                if sat:
                    witness = s
                    break
            except Unknown as e:
                undecidable = str(e)
                break
        if witness is not None:
            kinds = sorted(v['kind'] for v in d['validators'])
            lows = [v for v in d['validators'] if v['kind'] in ('greater', 'greater_or_equal')]
            ups = [v for v in d['validators'] if v['kind'] in ('less', 'less_or_equal')]
            inf_end = False
            if lows and ups and all(isinstance(v.get('value'), (int, float)) for v in lows + ups):
                lo_v, hi_v = float(lows[0]['value']), float(ups[0]['value'])
                mx = 3.4028234663852886e38 if d['inner'] == 'f32' else 1.7976931348623157e308
                inf_end = math.isinf(lo_v) or math.isinf(hi_v)   # (bounds more than MAX apart were repaired: 710a450)
            rep.ob('R-ARB-FLT', False, g,
                   f'panic path of arbitrary is reachable: the draw {witness!r} ({ty}) satisfies every condition leading to the panic',
                   {'draw': repr(witness), 'conds': [(show(cn)[:160], str(v)) for cn, v in o.conds][-4:], 'why': o.why},
                   site='float Arbitrary scales between two bounds of which one is infinite (inf * 0 / inf - inf = NaN), with `finite` declared' if inf_end else None)
        else:
            # try to prove the row infeasible: some condition cannot take its edge for any draw
            proved = False
            why = undecidable
            # rows reached through the retry loop: the base value is `from_be_bytes/from_ne_bytes(mutated bytes)`, an opaque
            # float that the loop exit condition constrains (is_finite / !is_nan); use it as the interval variable
            leaves = set()
            for cn, v in o.conds:
                for t in walk(cn):
                    if t[0] == 'call' and cname(ex, t) in ('from_be_bytes', 'from_ne_bytes'):
                        leaves.add(t)
            # candidates for the interval variable: the first draw, or one of the opaque floats rebuilt from mutated bytes
            # (a row may mention two of them - the rejected `from_be_bytes` and the accepted `from_ne_bytes`); an attempt
            # that proves some condition impossible is a proof on its own, conditions over other leaves are skipped
            cands_ = [(var, ty)] + [(lf, d['inner']) for lf in sorted(leaves, key=str)]
            if len(leaves) == 1:
                cands_ = [(next(iter(leaves)), d['inner'])]
            for (row_var, row_ty) in cands_:
                if proved:
                    break
                try:
                    var_, ty_ = row_var, row_ty
                    if ty_ in sym.INT_TYPES:
                        vlo, vhi = (0, (1 << sym.INT_TYPES[ty_]) - 1) if ty_[0] == 'u' else (-(1 << (sym.INT_TYPES[ty_] - 1)), (1 << (sym.INT_TYPES[ty_] - 1)) - 1)
                        notnan = True
                        ref = refine_int_draw(ex, o.conds, var_, ty_, vlo, vhi)
                        if ref is None:
                            proved = True
                            notnan = False
                            why = None
                        else:
                            vlo, vhi = ref
                    else:
                        vlo, vhi = float('-inf'), float('inf')
                        notnan = any(cn[0] == 'call' and cpath(ex, cn).endswith('>::is_nan') and strip_view(ex, cn[2][0]) == var_ and not truth(v)
                                     or (cn[0] == 'un' and cn[1] == 'Not' and cn[2][0] == 'call' and cpath(ex, cn[2]).endswith('>::is_nan')
                                         and strip_view(ex, cn[2][2][0]) == var_ and truth(v))
                                     for cn, v in o.conds)
                        finite = any(cn[0] == 'call' and cpath(ex, cn).endswith('>::is_finite') and strip_view(ex, cn[2][0]) == var_ and truth(v)
                                     for cn, v in o.conds)
                        if finite:
                            notnan = True
                            mx = 3.4028234663852886e38 if ty_ == 'f32' else 1.7976931348623157e308
                            vlo, vhi = -mx, mx
                    if notnan:
                        IENV.clear()
                        try:
                            if not refine_by_comparisons(ex, o.conds, var_, ty_, vlo, vhi):
                                proved = True
                            for cn, v in o.conds:
                                if proved:
                                    break
                                if cn[0] == 'discr':
                                    continue
                                try:
                                    if not cond_possible(ex, cn, v, var_, ty_, vlo, vhi):
                                        proved = True
                                        break
                                except Unknown as e:
                                    why = why or str(e)
                        finally:
                            IENV.clear()
                    else:
                        why = why or 'draw may be NaN on this path'
                except Unknown as e:
                    why = str(e)
            rep.ob('R-ARB-FLT', True if proved else None, g,
                   'panic path of arbitrary is unreachable: one of its conditions cannot hold for any draw (interval evaluation)',
                   {'why': why, 'conds': [(show(cn)[:160], str(v)) for cn, v in o.conds][-3:]})
    rep.sample({'decl': decl_key(d), 'panic_rows': nrows, 'draw_type': ty})
