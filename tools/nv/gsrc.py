"""G-level: lints over the generator's own source (nutype_macros/src/**/*.rs).

A small Rust lexer (comments, strings, raw strings, chars/lifetimes, punctuation) gives a token
stream per file; `quote!` bodies and the enclosing `fn` are recovered by delimiter matching.
These rules read generator *syntax*, so they are secondary evidence with explicit anchors: a
missing anchor is reported as such, never guessed."""
import os
import re

from . import build


class Tok:
    __slots__ = ('kind', 'text', 'line')

    def __init__(self, kind, text, line):
        self.kind = kind
        self.text = text
        self.line = line

    def __repr__(self):
        return f'{self.kind}:{self.text}@{self.line}'


def lex(src):
    toks = []
    i, n, line = 0, len(src), 1
    while i < n:
        c = src[i]
        if c == '\n':
            line += 1
            i += 1
            continue
        if c.isspace():
            i += 1
            continue
        if src.startswith('//', i):
            j = src.find('\n', i)
            i = n if j < 0 else j
            continue
        if src.startswith('/*', i):
            depth = 1
            i += 2
            while i < n and depth:
                if src.startswith('/*', i):
                    depth += 1
                    i += 2
                elif src.startswith('*/', i):
                    depth -= 1
                    i += 2
                else:
                    if src[i] == '\n':
                        line += 1
                    i += 1
            continue
        m = re.match(r'(b?r)(#*)"', src[i:])
        if m:
            hashes = m.group(2)
            end = src.find('"' + hashes, i + len(m.group(0)))
            if end < 0:
                end = n
            text = src[i:end + 1 + len(hashes)]
            toks.append(Tok('str', text, line))
            line += text.count('\n')
            i = end + 1 + len(hashes)
            continue
        if c == '"' or (c == 'b' and i + 1 < n and src[i + 1] == '"'):
            j = i + (2 if c == 'b' else 1)
            while j < n and src[j] != '"':
                if src[j] == '\\':
                    j += 1
                j += 1
            text = src[i:j + 1]
            toks.append(Tok('str', text, line))
            line += text.count('\n')
            i = j + 1
            continue
        if c == "'":
            # char literal or lifetime
            m = re.match(r"'(\\.[^']*|[^'\\])'", src[i:])
            if m:
                toks.append(Tok('char', m.group(0), line))
                i += len(m.group(0))
                continue
            m = re.match(r"'[A-Za-z_][A-Za-z0-9_]*", src[i:])
            if m:
                toks.append(Tok('lifetime', m.group(0), line))
                i += len(m.group(0))
                continue
        m = re.match(r'[A-Za-z_][A-Za-z0-9_]*', src[i:])
        if m:
            toks.append(Tok('ident', m.group(0), line))
            i += len(m.group(0))
            continue
        m = re.match(r'[0-9][0-9A-Za-z_.]*', src[i:])
        if m:
            toks.append(Tok('num', m.group(0), line))
            i += len(m.group(0))
            continue
        for p in ('<<=', '>>=', '...', '..=', '::', '->', '=>', '==', '!=', '<=', '>=', '&&', '||', '+=', '-=', '*=', '/=', '<<', '>>', '..'):
            if src.startswith(p, i):
                toks.append(Tok('punct', p, line))
                i += len(p)
                break
        else:
            toks.append(Tok('punct', c, line))
            i += 1
    return toks


OPEN = {'(': ')', '[': ']', '{': '}'}


def match_close(toks, i):
    """index of the delimiter closing toks[i]"""
    depth = 0
    for j in range(i, len(toks)):
        t = toks[j]
        if t.kind == 'punct' and t.text in OPEN:
            depth += 1
        elif t.kind == 'punct' and t.text in OPEN.values():
            depth -= 1
            if depth == 0:
                return j
    return len(toks) - 1


class SrcFile:
    def __init__(self, rel, src):
        self.rel = rel
        self.src = src
        self.toks = lex(src)
        self.fn_at = self._fn_map()
        self.quotes = self._quotes()

    def _fn_map(self):
        """token index -> name of the innermost enclosing fn"""
        toks = self.toks
        out = [None] * len(toks)
        stack = []   # (fn name, close index)
        i = 0
        pending = None
        while i < len(toks):
            while stack and i > stack[-1][1]:
                stack.pop()
            t = toks[i]
            if t.kind == 'ident' and t.text == 'fn' and i + 1 < len(toks) and toks[i + 1].kind == 'ident':
                pending = toks[i + 1].text
            if t.kind == 'punct' and t.text == ';' and pending:
                pending = None
            if t.kind == 'punct' and t.text == '{' and pending:
                stack.append((pending, match_close(toks, i)))
                pending = None
            out[i] = stack[-1][0] if stack else None
            i += 1
        return out

    def _quotes(self):
        """list of (fn name, start tok index, end tok index, line) for every quote!/parse_quote! body"""
        toks = self.toks
        out = []
        for i, t in enumerate(toks):
            if t.kind == 'ident' and t.text in ('quote', 'parse_quote', 'quote_spanned') and i + 2 < len(toks) \
                    and toks[i + 1].text == '!' and toks[i + 2].text in OPEN:
                j = match_close(toks, i + 2)
                out.append((self.fn_at[i], i + 3, j, t.line))
        return out


def generator_files():
    root = os.path.join(build.repo(), 'nutype_macros', 'src')
    out = []
    for dp, dn, fn in os.walk(root):
        dn.sort()
        for f in sorted(fn):
            if f.endswith('.rs'):
                p = os.path.join(dp, f)
                with open(p) as fh:
                    out.append(SrcFile(os.path.relpath(p, root), fh.read()))
    return out


# ----------------------------------------------------------------------------- G-STD

# `std` path roots inside quote! bodies that are allowed, with the reason. key: (file, fn)
G_STD_ALLOW = {
    ('common/gen/error.rs', 'gen_impl_error_trait'): 'else-branch of cfg(ERROR_IN_CORE) inside cfg(any(ERROR_IN_CORE, feature = "std")): only emitted when the std feature is on',
    ('common/gen/parse_error.rs', 'gen_def_parse_error'): 'same cfg structure as common/gen/error.rs',
    ('string/gen/mod.rs', 'gen_fn_validate'): 'regex static of *string* newtypes (LazyLock); string newtypes are outside the no_std claim (C15 is about integer/float/other)',
}


def in_not_error_in_core_branch(f, idx):
    """is token idx inside `cfg_if!{ if #[cfg(any(ERROR_IN_CORE, feature = "std"))] { cfg_if!{ if #[cfg(ERROR_IN_CORE)] {..} else { <here> } } } }`?"""
    toks = f.toks
    # enclosing `else {` block
    depth = 0
    j = idx
    else_at = None
    while j >= 0:
        t = toks[j]
        if t.kind == 'punct' and t.text in OPEN.values():
            depth += 1
        elif t.kind == 'punct' and t.text in OPEN:
            if depth == 0:
                if t.text == '{' and j > 0 and toks[j - 1].kind == 'ident' and toks[j - 1].text == 'else':
                    else_at = j - 1
                    break
            else:
                depth -= 1
        j -= 1
    if else_at is None:
        return False
    # the `if` arm before that else: `if # [ cfg ( ERROR_IN_CORE ) ] { ... }`
    k = else_at - 1
    if toks[k].text != '}':
        return False
    depth = 0
    while k >= 0:
        t = toks[k]
        if t.text == '}':
            depth += 1
        elif t.text == '{':
            depth -= 1
            if depth == 0:
                break
        k -= 1
    head = ' '.join(t.text for t in toks[max(0, k - 9):k])
    if 'if # [ cfg ( ERROR_IN_CORE ) ]' not in head:
        return False
    # and the outer guard mentions feature = "std"
    outer = ' '.join(t.text for t in toks[max(0, k - 40):k])
    return 'any ( ERROR_IN_CORE , feature = "std" )' in outer


def guarded_by_std_feature(f, idx):
    """is token idx inside a block whose header is a pure `feature = "std"` condition - `if cfg!(feature = "std") {`,
    `else if cfg!(feature = "std") {`, `if #[cfg(feature = "std")] {` (cfg_if) - i.e. code that only runs when the
    generator itself was built with its std feature on? Negated or compound conditions do not count."""
    toks = f.toks
    depth = 0
    j = idx
    while j >= 0:
        t = toks[j]
        if t.kind == 'punct' and t.text in OPEN.values():
            depth += 1
        elif t.kind == 'punct' and t.text in OPEN:
            if depth == 0:
                if t.text == '{':
                    # header: tokens back to the previous `;`, `{` or `}` (at most 24)
                    k = j - 1
                    head = []
                    while k >= 0 and len(head) < 24 and toks[k].text not in (';', '{', '}'):
                        head.append(toks[k].text)
                        k -= 1
                    h = ' '.join(reversed(head))
                    if re.search(r'(^|\s)(else\s+)?if\s+(cfg\s+!\s+\(\s+feature\s+=\s+"std"\s+\)|#\s+\[\s+cfg\s+\(\s+feature\s+=\s+"std"\s+\)\s+\])\s*$', h):
                        return True
            else:
                depth -= 1
        j -= 1
    return False


def g_std(files):
    """every `std` path root in a quote! body; returns (instances, violations)"""
    inst = 0
    viol = []
    sites = []
    for f in files:
        for (fn, a, b, line) in f.quotes:
            inst += 1
            toks = f.toks
            for k in range(a, b):
                t = toks[k]
                if t.kind == 'ident' and t.text == 'std' and k + 1 < b and toks[k + 1].text == '::' \
                        and not (k > a and toks[k - 1].kind == 'punct' and toks[k - 1].text == '::' and k - 2 >= a and toks[k - 2].kind == 'ident'):
                    key = (f.rel, fn)
                    sites.append({'file': f.rel, 'fn': fn, 'line': t.line})
                    # allowed: (1) anywhere, inside the verified cfg structure that is only emitted with the std feature on;
                    # (2) templates of the *string* generator (string newtypes are outside the no_std claim). The table above
                    # records the sites confirmed by reading; a site that moves but keeps (1) or (2) stays allowed.
                    ok = in_not_error_in_core_branch(f, k) or guarded_by_std_feature(f, k) or f.rel.startswith('string/')
                    if not ok:
                        viol.append({'file': f.rel, 'fn': fn, 'line': t.line,
                                     'what': f'`std::` path emitted by the template in {f.rel}::{fn}'})
    return inst, sites, viol


# ----------------------------------------------------------------------------- G-PROFILE

PROFILE_IDENTS = ('debug_assertions', 'debug_assert', 'debug_assert_eq', 'debug_assert_ne', 'overflow_checks')


def g_profile(files):
    """the generated program must not depend on the build profile of the *user's* crate: no `cfg(debug_assertions)`,
    `cfg!(debug_assertions)`, `debug_assert*!` (or `overflow_checks`) token inside a quote! body. The corpus is built in
    the dev profile only, so code behind `#[cfg(not(debug_assertions))]` would never be seen by the E-level rules."""
    inst = 0
    viol = []
    for f in files:
        for (fn, a, b, line) in f.quotes:
            inst += 1
            for k in range(a, b):
                t = f.toks[k]
                if t.kind == 'ident' and t.text in PROFILE_IDENTS:
                    viol.append({'file': f.rel, 'fn': fn, 'line': t.line, 'token': t.text,
                                 'what': f'generated code depends on the build profile (`{t.text}`) in {f.rel}::{fn}: guards or '
                                         f'constructions behind it are not the ones analysed in the dev profile'})
                elif t.kind == 'ident' and t.text in ('cfg', 'cfg_attr') and k + 3 < b:
                    # any other conditional compilation *of the generated program* (it would be evaluated in the user's
                    # crate: target, features of that crate, ...); `cfg(test)` around the generated unit tests is the
                    # one legitimate use and is analysed separately (test-mode corpus)
                    nxt = [x.text for x in f.toks[k + 1:k + 5]]
                    if nxt[:3] == ['(', 'test', ')']:
                        continue
                    if nxt[0] == '!' and nxt[1:4] == ['(', 'test', ')']:
                        continue
                    viol.append({'file': f.rel, 'fn': fn, 'line': t.line, 'token': 'cfg',
                                 'what': f'generated code is conditionally compiled (`{t.text}{" ".join(nxt)} ..`) in {f.rel}::{fn}: '
                                         f'only the configuration the corpus is built in is analysed'})
    return inst, viol


# ----------------------------------------------------------------------------- G-LWW

CONST_RHS = (('ConstFn', '::', 'Const'), ('NewUnchecked', '::', 'On'), ('true',), ('false',))


def g_lww(files):
    """last-writer-wins in the attribute loop: a data assignment `attrs.F = ..` inside the
    `while !input.is_empty()` loop without a preceding "already given" test in the same block"""
    inst = 0
    viol = []
    anchors = 0
    for f in files:
        toks = f.toks
        for i in range(len(toks) - 8):
            if toks[i].text == 'while' and [t.text for t in toks[i + 1:i + 8]] == ['!', 'input', '.', 'is_empty', '(', ')', '{']:
                anchors += 1
                a, b = i + 7, match_close(toks, i + 7)
                for k in range(a, b - 3):
                    if toks[k].kind == 'ident' and toks[k + 1].text == '.' and toks[k + 2].kind == 'ident' and toks[k + 3].text == '=' \
                            and toks[k].text == 'attrs':
                        field = toks[k + 2].text
                        rhs = tuple(t.text for t in toks[k + 4:k + 7])
                        if any(rhs[:len(c)] == c for c in CONST_RHS):
                            continue
                        inst += 1
                        # innermost enclosing block start
                        depth = 0
                        j = k
                        while j > a:
                            if toks[j].text == '}':
                                depth += 1
                            elif toks[j].text == '{':
                                if depth == 0:
                                    break
                                depth -= 1
                            j -= 1
                        blk = [t.text for t in toks[j:k]]
                        guarded = False
                        for q in range(len(blk)):
                            if blk[q] == 'if':
                                seg = blk[q:q + 14]
                                if ('return' in blk[q:] and 'Err' in blk[q:]) and (field in seg or any(x.startswith('seen_') for x in seg)):
                                    guarded = True
                        if not guarded:
                            viol.append({'file': f.rel, 'fn': f.fn_at[k], 'field': field, 'line': toks[k].line,
                                         'what': f'attribute loop assigns `attrs.{field}` without refusing a repeated block (a later block silently replaces an earlier one)'})
    return anchors, inst, viol


# ----------------------------------------------------------------------------- G-SPEC

ATOMIC_TYPES = {'Ident', 'Lit', 'LitStr', 'LitInt', 'LitFloat', 'LitBool', 'Token', 'Lifetime'}


def g_spec(files):
    """speculative parsing discipline: a parse attempt whose failure is discarded must not run on the live stream
    unless the parsed item is a single token"""
    fns = 0
    spec_sites = 0
    viol = []
    # helpers that are speculative *by construction*: a fn with a ParseStream parameter that touches it only through
    # `.fork()`, `.advance_to(..)` and read-only probes - it parses a fork and commits on success
    safe_helpers = set()
    for f in files:
        toks = f.toks
        n = len(toks)
        for i in range(n - 4):
            if toks[i].text == 'fn' and toks[i + 1].kind == 'ident':
                j = i + 2
                while j < n and toks[j].text != '(':
                    j += 1
                if j >= n:
                    continue
                pe = match_close(toks, j)
                params = toks[j:pe]
                live = None
                for q in range(len(params) - 2):
                    if params[q].kind == 'ident' and params[q + 1].text == ':' and params[q + 2].text == 'ParseStream':
                        live = params[q].text
                if live is None:
                    continue
                k = pe
                while k < n and toks[k].text not in ('{', ';'):
                    k += 1
                if k >= n or toks[k].text == ';':
                    continue
                be = match_close(toks, k)
                body = [t.text for t in toks[k:be]]
                uses = [q for q in range(len(body)) if body[q] == live]
                if uses and 'fork' in body and 'advance_to' in body and all(
                        body[q + 1:q + 3] in (['.', 'fork'], ['.', 'advance_to'], ['.', 'span'], ['.', 'is_empty'], ['.', 'peek'], ['.', 'cursor'])
                        for q in uses):
                    safe_helpers.add(toks[i + 1].text)
    for f in files:
        toks = f.toks
        n = len(toks)
        i = 0
        while i < n - 4:
            if toks[i].text == 'fn' and toks[i + 1].kind == 'ident':
                # parameter list
                j = i + 2
                while j < n and toks[j].text != '(':
                    j += 1
                pe = match_close(toks, j)
                params = toks[j:pe]
                live = None
                for q in range(len(params) - 2):
                    if params[q].kind == 'ident' and params[q + 1].text == ':' and params[q + 2].text == 'ParseStream':
                        live = params[q].text
                if live is None:
                    i = pe
                    continue
                # body
                k = pe
                while k < n and toks[k].text not in ('{', ';'):
                    k += 1
                if k >= n or toks[k].text == ';':
                    i = k
                    continue
                be = match_close(toks, k)
                fns += 1
                body = toks[k:be]
                texts = [t.text for t in body]
                # candidate expressions: `if let Ok(..) = EXPR {` and `EXPR.is_ok()` / `.ok()`
                cands = []
                for q in range(len(body) - 3):
                    if texts[q] == 'if' and texts[q + 1] == 'let' and texts[q + 2] in ('Ok', 'Some'):
                        e = q + 3
                        while e < len(body) and texts[e] != '=':
                            e += 1
                        s = e + 1
                        d = 0
                        e2 = s
                        while e2 < len(body) and not (texts[e2] == '{' and d == 0):
                            if texts[e2] in ('(', '['):
                                d += 1
                            elif texts[e2] in (')', ']'):
                                d -= 1
                            e2 += 1
                        cands.append((s, e2))
                    if texts[q] == '.' and texts[q + 1] in ('is_ok', 'ok', 'is_err') and texts[q + 2] == '(':
                        # walk back to the start of the expression (statement / condition start)
                        s = q
                        d = 0
                        while s > 0:
                            tt = texts[s - 1]
                            if tt in (')', ']'):
                                d += 1
                            elif tt in ('(', '['):
                                if d == 0:
                                    break
                                d -= 1
                            elif d == 0 and tt in (';', '{', '}', '=', 'if', '&&', '||', '!'):
                                break
                            s -= 1
                        cands.append((s, q))
                for (s, e) in cands:
                    seg = texts[s:e]
                    if 'parse' not in seg and not any(x.startswith('parse_') for x in seg):
                        continue
                    spec_sites += 1
                    uses_live = False
                    atomic = False
                    for q in range(len(seg)):
                        if seg[q] == live:
                            nxt = seg[q + 1:q + 4]
                            if nxt[:2] == ['.', 'fork']:
                                continue
                            # the live stream handed to a helper that forks and commits on success only
                            if any(h in seg[:q] for h in safe_helpers) and q > 0 and seg[q - 1] in ('(', ','):
                                continue
                            uses_live = True
                            # input.parse::<T>()
                            if nxt[:2] == ['.', 'parse'] and '::' in seg[q:q + 5]:
                                ty = seg[q + 5] if len(seg) > q + 5 else ''
                                if ty in ATOMIC_TYPES:
                                    atomic = True
                    # harmful only if the function parses the live stream again after the discarded failure
                    again = False
                    rest = texts[e:]
                    for q in range(len(rest) - 2):
                        if rest[q] == live and rest[q + 1] == '.' and rest[q + 2] in ('parse', 'call', 'parse_terminated', 'step'):
                            again = True
                        if rest[q] == '(' and rest[q + 1] == live and rest[q + 2] == ')':
                            again = True
                    if uses_live and not atomic and again:
                        viol.append({'file': f.rel, 'fn': toks[i + 1].text, 'line': body[s].line,
                                     'expr': ' '.join(seg)[:120],
                                     'what': f'speculative parse on the live stream in `{toks[i + 1].text}`: `{" ".join(seg)[:80]}` may consume tokens before failing'})
                i = be
                continue
            i += 1
    return fns, spec_sites, viol


# ----------------------------------------------------------------------------- dependency facts (C10 / C04 assumptions)

def _locked_version(name):
    lock = os.path.join(build.repo(), 'Cargo.lock')
    try:
        txt = open(lock).read()
    except OSError:
        return None
    m = re.search(r'name = "%s"\nversion = "([^"]+)"' % re.escape(name), txt)
    return m.group(1) if m else None


def _registry_src(name, version):
    import glob
    c = glob.glob(os.path.expanduser(f'~/.cargo/registry/src/*/{name}-{version}'))
    return c[0] if c else None


def _first_fn_tail(path, fn_name):
    """tokens of the tail expression (after the last `;` / `}` at depth 0) of the first fn with that name"""
    try:
        f = SrcFile(path, open(path).read())
    except OSError:
        return None
    toks = f.toks
    for i in range(len(toks) - 1):
        if toks[i].text == 'fn' and toks[i + 1].text == fn_name:
            k = i
            while toks[k].text != '{':
                k += 1
            e = match_close(toks, k)
            body = toks[k + 1:e]
            depth = 0
            last = 0
            for j, t in enumerate(body):
                if t.text in OPEN:
                    depth += 1
                elif t.text in OPEN.values():
                    depth -= 1
                    if depth == 0 and t.text == '}':
                        last = j + 1
                elif t.text == ';' and depth == 0:
                    last = j + 1
            return ' '.join(t.text for t in body[last:]), ' '.join(t.text for t in body[:last])
    return None


def dependency_transparency():
    """the facts the byte-identity clause of C10 rests on, read from the vendored sources of the locked versions:
    JSON / MessagePack serializers pass a newtype struct's value through, deserializers hand the same deserializer to
    visit_newtype_struct. Returns a list of {crate, version, fact, verified: True|False|None}."""
    out = []
    for crate, ser_file, de_file in (('serde_json', 'src/ser.rs', 'src/de.rs'), ('rmp-serde', 'src/encode.rs', 'src/decode.rs')):
        ver = _locked_version(crate)
        src = _registry_src(crate, ver) if ver else None
        if not src:
            out.append({'crate': crate, 'version': ver, 'fact': 'sources not available', 'verified': None})
            continue
        t = _first_fn_tail(os.path.join(src, ser_file), 'serialize_newtype_struct')
        ok = t is not None and t[0].replace(' ', '') == 'value.serialize(self)'
        pre_ok = t is not None and (t[1] == '' or 'MSGPACK_EXT_STRUCT_NAME' in t[1])
        out.append({'crate': crate, 'version': ver, 'fact': 'Serializer::serialize_newtype_struct(name, value) = value.serialize(self)'
                    + (' (except for the reserved ext-struct name)' if t and t[1] else ''), 'verified': bool(ok and pre_ok)})
        t = _first_fn_tail(os.path.join(src, de_file), 'deserialize_newtype_struct')
        ok = t is not None and t[0].replace(' ', '') == 'visitor.visit_newtype_struct(self)'
        out.append({'crate': crate, 'version': ver, 'fact': 'Deserializer::deserialize_newtype_struct(name, v) = v.visit_newtype_struct(self)'
                    + (' (after raw-value / ext-struct special names)' if t and t[1] else ''), 'verified': bool(ok)})
    return out
