"""Scratch-crate construction, driver invocation and the facts cache.

Everything is rebuilt from the *current working tree* of the repository
(VERIF_REPO, default /repo): the cache key is a hash of the contents of the
files the macro and its facade crate are built from.
"""
import atexit
import fcntl
import hashlib
import json
import os
import shutil
import subprocess
import sys
import tempfile
import time

from . import corpus

VERIF = os.path.dirname(os.path.dirname(os.path.dirname(os.path.abspath(__file__))))
TOOLS = os.path.join(VERIF, 'tools')
NUMIR = os.path.join(TOOLS, 'numir', 'target', 'debug', 'numir')
NUSYN = os.path.join(TOOLS, 'nusyn', 'target', 'debug', 'nusyn')
CACHE = os.path.join(VERIF, '.cache')


def repo():
    return os.environ.get('VERIF_REPO', '/repo')


def log(*a):
    print('[nv]', *a, file=sys.stderr, flush=True)


_scratch = [None]


def scratch():
    if _scratch[0] is None:
        base = os.environ.get('VERIF_SCRATCH_BASE', '/var/tmp')
        d = tempfile.mkdtemp(prefix='nuverif.', dir=base)
        _scratch[0] = d
        atexit.register(lambda: shutil.rmtree(d, ignore_errors=True))
    return _scratch[0]


def tree_files():
    r = repo()
    out = []
    for rel in ('Cargo.toml', 'Cargo.lock'):
        p = os.path.join(r, rel)
        if os.path.exists(p):
            out.append(p)
    for top in ('nutype', 'nutype_macros'):
        for dp, dn, fn in os.walk(os.path.join(r, top)):
            dn[:] = sorted(d for d in dn if d not in ('target', '.git'))
            for f in sorted(fn):
                out.append(os.path.join(dp, f))
    return out


_hash = [None]


def tree_hash():
    if _hash[0] is None:
        h = hashlib.sha256()
        r = repo()
        for p in tree_files():
            h.update(os.path.relpath(p, r).encode())
            h.update(b'\0')
            with open(p, 'rb') as f:
                h.update(f.read())
            h.update(b'\0')
        # the machinery itself is part of the key: a changed corpus or driver must rebuild
        for p in (os.path.join(TOOLS, 'nv', 'corpus.py'), os.path.join(TOOLS, 'numir', 'src', 'main.rs'),
                  os.path.join(TOOLS, 'nusyn', 'src', 'main.rs')):
            if os.path.exists(p):
                with open(p, 'rb') as f:
                    h.update(f.read())
        _hash[0] = h.hexdigest()[:24]
    return _hash[0]


def cache_dir(tier):
    d = os.path.join(CACHE, tree_hash(), tier)
    os.makedirs(d, exist_ok=True)
    return d


class Lock:
    def __init__(self, path):
        self.path = path

    def __enter__(self):
        os.makedirs(os.path.dirname(self.path), exist_ok=True)
        self.f = open(self.path, 'w')
        fcntl.flock(self.f, fcntl.LOCK_EX)
        return self

    def __exit__(self, *a):
        fcntl.flock(self.f, fcntl.LOCK_UN)
        self.f.close()


def nightly_sysroot():
    return subprocess.check_output(['rustc', '+nightly', '--print', 'sysroot'], text=True).strip()


def cargo_env(extra=None):
    env = dict(os.environ)
    env['CARGO_NET_OFFLINE'] = 'true'
    env.pop('RUSTC_WRAPPER', None)
    if extra:
        env.update(extra)
    return env


def write_crate(ws, name, c):
    d = os.path.join(ws, name)
    os.makedirs(os.path.join(d, 'src'), exist_ok=True)
    r = repo()
    feats = ', '.join(f'"{f}"' for f in c['features'])
    if c['std']:
        deps = f'''nutype = {{ path = "{r}/nutype", features = [{feats}] }}
serde = "1"
arbitrary = "1"
regex = "1"
'''
    else:
        deps = f'''nutype = {{ path = "{r}/nutype", default-features = false, features = [{feats}] }}
serde = {{ version = "1", default-features = false, features = ["alloc"] }}
arbitrary = "1"
'''
    with open(os.path.join(d, 'Cargo.toml'), 'w') as f:
        f.write(f'[package]\nname = "{name}"\nversion = "0.0.0"\nedition = "2021"\n\n[lib]\npath = "src/lib.rs"\n\n[dependencies]\n{deps}')
    with open(os.path.join(d, 'src', 'lib.rs'), 'w') as f:
        f.write(corpus.crate_source(c))


def make_workspace(ws, crates):
    os.makedirs(ws, exist_ok=True)
    members = ', '.join(f'"{n}"' for n in crates)
    with open(os.path.join(ws, 'Cargo.toml'), 'w') as f:
        f.write(f'[workspace]\nresolver = "2"\nmembers = [{members}]\n')
    shutil.copy(os.path.join(repo(), 'Cargo.lock'), os.path.join(ws, 'Cargo.lock'))
    for n, c in crates.items():
        write_crate(ws, n, c)


def run(cmd, cwd, env, what, timeout=3600):
    t0 = time.time()
    p = subprocess.run(cmd, cwd=cwd, env=env, stdout=subprocess.PIPE, stderr=subprocess.STDOUT, text=True, timeout=timeout)
    log(f'{what}: exit {p.returncode} in {time.time() - t0:.1f}s')
    return p


def mir_facts(tier):
    """Build (or fetch from cache) the MIR fact files of the corpus. Returns
    (crates dict, {crate_name: facts_path}, info)."""
    crates = corpus.build(tier, int(os.environ.get('VERIF_SEED', '0')) if tier == 'thorough' else 0)
    for c in crates.values():
        corpus.crate_source(c)   # fills line numbers / closure positions of every declaration
    cd = cache_dir(tier)
    with Lock(os.path.join(cd, '.lock')):
        marker = os.path.join(cd, 'mir.ok')
        if not os.path.exists(marker):
            t0 = time.time()
            sc = scratch()
            out = os.path.join(sc, 'mirout')
            os.makedirs(out, exist_ok=True)
            env = cargo_env({
                'LD_LIBRARY_PATH': nightly_sysroot() + '/lib',
                'RUSTFLAGS': '-Zmir-opt-level=0 -Awarnings',
                'RUSTC_WORKSPACE_WRAPPER': NUMIR,
                'NUMIR_OUT': out,
            })
            procs = []
            groups = {'wsfull': {n: c for n, c in crates.items() if c['std']},
                      'wsnostd': {n: c for n, c in crates.items() if not c['std']}}
            for g, cs in groups.items():
                ws = os.path.join(sc, g)
                make_workspace(ws, cs)
                e = dict(env)
                e['CARGO_TARGET_DIR'] = os.path.join(sc, g + '-target')
                procs.append((g, subprocess.Popen(['cargo', '+nightly', 'check', '--offline', '--workspace', '-j', '16'],
                                                  cwd=ws, env=e, stdout=subprocess.PIPE, stderr=subprocess.STDOUT, text=True)))
            fails = {}
            for g, p in procs:
                o, _ = p.communicate()
                with open(os.path.join(cd, f'cargo-{g}.log'), 'w') as f:
                    f.write(o)
                if p.returncode != 0:
                    fails[g] = o
            for g in groups:
                shutil.rmtree(os.path.join(sc, g + '-target'), ignore_errors=True)
            got = {}
            for fn in os.listdir(out):
                if fn.endswith('.json'):
                    cn = fn.rsplit('-', 1)[0]
                    shutil.move(os.path.join(out, fn), os.path.join(cd, f'mir-{cn}.json'))
                    got[cn] = True
            # keep sources for replay/diagnostics
            for g, cs in groups.items():
                for n in cs:
                    shutil.copy(os.path.join(sc, g, n, 'src', 'lib.rs'), os.path.join(cd, f'src-{n}.rs'))
            info = {'built_s': round(time.time() - t0, 1), 'fails': {g: o[-6000:] for g, o in fails.items()},
                    'crates': sorted(got)}
            with open(os.path.join(cd, 'mir-info.json'), 'w') as f:
                json.dump(info, f)
            with open(marker, 'w') as f:
                f.write('ok')
            log(f'MIR facts built in {info["built_s"]}s; crates with facts: {len(got)}/{len(crates)}')
        info = json.load(open(os.path.join(cd, 'mir-info.json')))
    paths = {n: os.path.join(cd, f'mir-{n}.json') for n in crates if os.path.exists(os.path.join(cd, f'mir-{n}.json'))}
    return crates, paths, info
