"""Scratch-crate construction, driver invocation and the facts cache.

Everything is rebuilt from the *current working tree* of the repository
(VERIF_REPO, default /repo): the cache key is a hash of the contents of the
files the macro and its facade crate are built from.
"""
import atexit
import fcntl
import hashlib
import json
import os
import shutil
import subprocess
import sys
import tempfile
import time

from . import corpus

VERIF = os.path.dirname(os.path.dirname(os.path.dirname(os.path.abspath(__file__))))
TOOLS = os.path.join(VERIF, 'tools')
NUMIR = os.path.join(TOOLS, 'numir', 'target', 'debug', 'numir')
if not os.path.exists(NUMIR) and os.path.exists('/verif/tools/numir/target/debug/numir'):
    NUMIR = '/verif/tools/numir/target/debug/numir'   # `vp run` snapshots hold committed files only
NUSYN = os.path.join(TOOLS, 'nusyn', 'target', 'debug', 'nusyn')
CACHE = os.environ.get('VERIF_CACHE') or os.path.join(VERIF, '.cache')   # self-tests use their own cache directory


def repo():
    return os.environ.get('VERIF_REPO', '/repo')


def log(*a):
    print('[nv]', *a, file=sys.stderr, flush=True)


_scratch = [None]


def scratch():
    if _scratch[0] is None:
        base = os.environ.get('VERIF_SCRATCH_BASE', '/var/tmp')
        d = tempfile.mkdtemp(prefix='nuverif.', dir=base)
        _scratch[0] = d
        atexit.register(lambda: shutil.rmtree(d, ignore_errors=True))
    return _scratch[0]


def tree_files():
    r = repo()
    out = []
    for rel in ('Cargo.toml', 'Cargo.lock'):
        p = os.path.join(r, rel)
        if os.path.exists(p):
            out.append(p)
    for top in ('nutype', 'nutype_macros'):
        for dp, dn, fn in os.walk(os.path.join(r, top)):
            dn[:] = sorted(d for d in dn if d not in ('target', '.git'))
            for f in sorted(fn):
                out.append(os.path.join(dp, f))
    return out


_hash = [None]


def tree_hash():
    if _hash[0] is None:
        h = hashlib.sha256()
        r = repo()
        for p in tree_files():
            h.update(os.path.relpath(p, r).encode())
            h.update(b'\0')
            with open(p, 'rb') as f:
                h.update(f.read())
            h.update(b'\0')
        # the machinery itself is part of the key: a changed corpus or driver must rebuild
        for p in (os.path.join(TOOLS, 'nv', 'corpus.py'), os.path.join(TOOLS, 'nv', 'build.py'), os.path.join(TOOLS, 'numir', 'src', 'main.rs'),
                  os.path.join(TOOLS, 'nusyn', 'src', 'main.rs')):
            if os.path.exists(p):
                with open(p, 'rb') as f:
                    h.update(f.read())
        _hash[0] = h.hexdigest()[:24]
    return _hash[0]


def evict_cache(keep=10):
    """keep only the most recently used tree states (disk space)"""
    try:
        ents = [(os.path.getmtime(os.path.join(CACHE, e)), e) for e in os.listdir(CACHE)]
    except OSError:
        return
    ents.sort(reverse=True)
    now = time.time()
    for mt, e in ents[keep:]:
        # not a state touched within the last hour: another check may be using it (runs against patched trees keep their
        # cache in their own scratch directory, so this directory only ever sees a handful of states)
        if e != tree_hash() and now - mt > 3600:
            shutil.rmtree(os.path.join(CACHE, e), ignore_errors=True)


def cache_dir(tier):
    d = os.path.join(CACHE, tree_hash(), tier)
    if not os.path.isdir(d):
        os.makedirs(d, exist_ok=True)
        evict_cache()
    os.utime(os.path.join(CACHE, tree_hash()))
    return d


class Lock:
    def __init__(self, path):
        self.path = path

    def __enter__(self):
        os.makedirs(os.path.dirname(self.path), exist_ok=True)
        self.f = open(self.path, 'w')
        fcntl.flock(self.f, fcntl.LOCK_EX)
        return self

    def __exit__(self, *a):
        fcntl.flock(self.f, fcntl.LOCK_UN)
        self.f.close()


def nightly_sysroot():
    return subprocess.check_output(['rustc', '+nightly', '--print', 'sysroot'], text=True).strip()


def cargo_env(extra=None):
    env = dict(os.environ)
    env['CARGO_NET_OFFLINE'] = 'true'
    env.pop('RUSTC_WRAPPER', None)
    if extra:
        env.update(extra)
    return env


def write_crate(ws, name, c):
    d = os.path.join(ws, name)
    os.makedirs(os.path.join(d, 'src'), exist_ok=True)
    r = repo()
    feats = ', '.join(f'"{f}"' for f in c['features'])
    if c.get('macro_std') is False:
        # a std user crate that turned nutype's default features off (the generator's own `std` feature is off)
        deps = f'''nutype = {{ path = "{r}/nutype", default-features = false, features = [{feats}] }}
serde = "1"
arbitrary = "1"
regex = "1"
'''
    elif c.get('bare'):
        deps = f'nutype = {{ path = "{r}/nutype" }}\n'
    elif c['std']:
        deps = f'''nutype = {{ path = "{r}/nutype", features = [{feats}] }}
serde = "1"
arbitrary = "1"
regex = "1"
'''
        if 'schemars08' in c['features']:
            deps += 'schemars = "0.8"\n'
    else:
        deps = f'''nutype = {{ path = "{r}/nutype", default-features = false, features = [{feats}] }}
serde = {{ version = "1", default-features = false, features = ["alloc"] }}
arbitrary = "1"
'''
    with open(os.path.join(d, 'Cargo.toml'), 'w') as f:
        # the bare-features crate doubles as the edition-2018 user crate (no TryFrom/TryInto/FromIterator in the prelude,
        # 2018 closure captures and macro semantics): the expansion must not rely on the 2021 prelude
        edition = c.get('edition', '2021')
        f.write(f'[package]\nname = "{name}"\nversion = "0.0.0"\nedition = "{edition}"\n\n[lib]\npath = "src/lib.rs"\n\n[dependencies]\n{deps}')
    with open(os.path.join(d, 'src', 'lib.rs'), 'w') as f:
        f.write(corpus.crate_source(c))


def make_workspace(ws, crates):
    os.makedirs(ws, exist_ok=True)
    members = ', '.join(f'"{n}"' for n in crates)
    with open(os.path.join(ws, 'Cargo.toml'), 'w') as f:
        f.write(f'[workspace]\nresolver = "2"\nmembers = [{members}]\n')
    shutil.copy(os.path.join(repo(), 'Cargo.lock'), os.path.join(ws, 'Cargo.lock'))
    for n, c in crates.items():
        write_crate(ws, n, c)


def run(cmd, cwd, env, what, timeout=3600):
    t0 = time.time()
    p = subprocess.run(cmd, cwd=cwd, env=env, stdout=subprocess.PIPE, stderr=subprocess.STDOUT, text=True, timeout=timeout)
    log(f'{what}: exit {p.returncode} in {time.time() - t0:.1f}s')
    return p


def _cargo_check_json(ws, env, members=None):
    """cargo check with JSON diagnostics; returns (returncode, [ (crate_rel_file, line, code, message) ], raw tail)"""
    cmd = ['cargo', '+nightly', 'check', '--offline', '-j', '16', '--message-format=json', '--keep-going']
    if members:
        for m in members:
            cmd += ['-p', m]
    else:
        cmd.append('--workspace')
    p = subprocess.run(cmd, cwd=ws, env=env, stdout=subprocess.PIPE, stderr=subprocess.PIPE, text=True)
    errs = []
    for line in p.stdout.split('\n'):
        if not line.startswith('{'):
            continue
        try:
            m = json.loads(line)
        except ValueError:
            continue
        if m.get('reason') != 'compiler-message':
            continue
        msg = m['message']
        if msg.get('level') != 'error':
            continue
        spans = [sp for sp in msg.get('spans', []) if sp.get('is_primary')] or msg.get('spans', [])
        # follow macro expansion back to the invocation site in the corpus file
        for sp in spans:
            cur = sp
            while cur.get('expansion') and cur['expansion'].get('span'):
                cur = cur['expansion']['span']
            errs.append((cur['file_name'], cur['line_start'], (msg.get('code') or {}).get('code'), msg['message'][:300]))
        if not spans:
            errs.append((None, None, (msg.get('code') or {}).get('code'), msg['message'][:300]))
    return p.returncode, errs, p.stderr[-4000:]


def seed():
    return int(os.environ.get('VERIF_SEED', '0'))


def mir_facts(tier):
    """Build (or fetch from cache) the MIR fact files of the corpus. Returns
    (crates dict, {crate_name: facts_path}, info). Declarations the current tree refuses to
    compile are dropped from the corpus (and listed in info['dropped']) so that the remaining
    declarations can still be analysed."""
    crates = corpus.build(tier, seed() if tier == 'thorough' else 0)
    for c in crates.values():
        corpus.crate_source(c)   # fills line numbers / closure positions of every declaration
    cd = cache_dir(tier if tier != 'thorough' else f'thorough-{seed()}')
    all_decls = {(cn, d['name']): d for cn, c in crates.items() for d in c['decls']}
    with Lock(os.path.join(cd, '.lock')):
        marker = os.path.join(cd, 'mir.ok')
        if not os.path.exists(marker):
            t0 = time.time()
            sc = scratch()
            out = os.path.join(sc, 'mirout')
            os.makedirs(out, exist_ok=True)
            env = cargo_env({
                'LD_LIBRARY_PATH': nightly_sysroot() + '/lib',
                'RUSTFLAGS': '-Zmir-opt-level=0 -Awarnings',
                'RUSTC_WORKSPACE_WRAPPER': NUMIR,
                'NUMIR_OUT': out,
            })
            groups = {'wsfull': {n: c for n, c in crates.items() if c['std'] and not c.get('bare') and c.get('macro_std') is not False},
                      'wsbare': {n: c for n, c in crates.items() if c.get('bare')},
                      'wsnostd': {n: c for n, c in crates.items() if not c['std']},
                      'wsnsf': {n: c for n, c in crates.items() if c.get('macro_std') is False}}
            groups = {g: cs for g, cs in groups.items() if cs}
            dropped = []
            fatal = {}

            def build_group(g, cs):
                ws = os.path.join(sc, g)
                make_workspace(ws, cs)
                e = dict(env)
                e['CARGO_TARGET_DIR'] = os.path.join(sc, g + '-target')
                todo = None
                for attempt in range(4):
                    rc, errs, tail = _cargo_check_json(ws, e, todo)
                    if rc == 0:
                        return
                    # map errors to declarations
                    bad = {}
                    unmapped = []
                    for (fn, ln, code, msg) in errs:
                        hit = False
                        if fn:
                            cn = fn.split('/')[0]
                            c = cs.get(cn)
                            if c is not None:
                                for d in c['decls']:
                                    if d['line'] <= ln <= d['end_line'] + 1:
                                        bad.setdefault(cn, {}).setdefault(d['name'], []).append(f'{code}: {msg}')
                                        hit = True
                        if not hit:
                            unmapped.append(f'{fn}:{ln}: {code}: {msg}')
                    if not bad:
                        fatal[g] = '\n'.join(unmapped[:20]) + '\n' + tail
                        return
                    for cn, names in bad.items():
                        c = cs[cn]
                        for d in c['decls']:
                            if d['name'] in names:
                                dropped.append({'crate': cn, 'name': d['name'], 'decl': d, 'errors': names[d['name']][:3]})
                        c['decls'] = [d for d in c['decls'] if d['name'] not in names]
                        write_crate(ws, cn, c)
                    todo = sorted(bad)
                fatal[g] = 'corpus still fails after dropping failing declarations'

            import threading
            ths = [threading.Thread(target=build_group, args=(g, cs)) for g, cs in groups.items()]
            for t in ths:
                t.start()
            for t in ths:
                t.join()
            for g in groups:
                shutil.rmtree(os.path.join(sc, g + '-target'), ignore_errors=True)
            got = {}
            newest = {}
            for fn in os.listdir(out):
                if fn.endswith('.json'):
                    cn = fn.rsplit('-', 1)[0]
                    p = os.path.join(out, fn)
                    if cn not in newest or os.path.getmtime(p) > os.path.getmtime(newest[cn]):
                        newest[cn] = p
            for cn, p in newest.items():
                shutil.move(p, os.path.join(cd, f'mir-{cn}.json'))
                got[cn] = True
            # keep sources for replay/diagnostics
            for g, cs in groups.items():
                for n in cs:
                    shutil.copy(os.path.join(sc, g, n, 'src', 'lib.rs'), os.path.join(cd, f'src-{n}.rs'))
            info = {'built_s': round(time.time() - t0, 1), 'fails': fatal,
                    'dropped': [{'crate': x['crate'], 'name': x['name'], 'errors': x['errors']} for x in dropped],
                    'crates': sorted(got)}
            with open(os.path.join(cd, 'mir-info.json'), 'w') as f:
                json.dump(info, f)
            with open(marker, 'w') as f:
                f.write('ok')
            log(f'MIR facts built in {info["built_s"]}s; crates with facts: {len(got)}/{len(crates)}; dropped declarations: {len(dropped)}')
        info = json.load(open(os.path.join(cd, 'mir-info.json')))
    # apply the recorded drops to the in-memory corpus (cache hit path) and recompute positions
    if info.get('dropped'):
        names = {(x['crate'], x['name']) for x in info['dropped']}
        for x in info['dropped']:
            x['decl'] = all_decls.get((x['crate'], x['name']))
        for cn, c in crates.items():
            c['decls'] = [d for d in c['decls'] if (cn, d['name']) not in names]
            corpus.crate_source(c)
    paths = {n: os.path.join(cd, f'mir-{n}.json') for n in crates if os.path.exists(os.path.join(cd, f'mir-{n}.json'))}
    return crates, paths, info


def test_facts(tier):
    """MIR facts of the corpus crate compiled in test mode (cfg(test)): the unit tests the macro generates
    into the user's crate are analysed, never run. Returns (crates, paths, info)."""
    crates = corpus.build_tests(tier)
    for c in crates.values():
        corpus.crate_source(c)
    cd = cache_dir('gentests-' + tier)
    with Lock(os.path.join(cd, '.lock')):
        if not os.path.exists(os.path.join(cd, 'ok')):
            t0 = time.time()
            sc = scratch()
            out = os.path.join(sc, 'testmirout')
            os.makedirs(out, exist_ok=True)
            ws = os.path.join(sc, 'wstests')
            make_workspace(ws, crates)
            env = cargo_env({
                'LD_LIBRARY_PATH': nightly_sysroot() + '/lib',
                'RUSTFLAGS': '-Zmir-opt-level=0 -Awarnings',
                'RUSTC_WORKSPACE_WRAPPER': NUMIR,
                'NUMIR_OUT': out,
                'CARGO_TARGET_DIR': os.path.join(sc, 'wstests-target'),
            })
            p = run(['cargo', '+nightly', 'check', '--offline', '--workspace', '--lib', '--profile', 'test', '-j', '16'], ws, env, 'generated-tests corpus (cfg(test))')
            shutil.rmtree(os.path.join(sc, 'wstests-target'), ignore_errors=True)
            info = {'built_s': round(time.time() - t0, 1), 'rc': p.returncode, 'tail': p.stdout[-3000:] if p.returncode else ''}
            for fn in os.listdir(out):
                if fn.endswith('.json'):
                    shutil.move(os.path.join(out, fn), os.path.join(cd, 'mir-' + fn.rsplit('-', 1)[0] + '.json'))
            for n in crates:
                shutil.copy(os.path.join(ws, n, 'src', 'lib.rs'), os.path.join(cd, f'src-{n}.rs'))
            json.dump(info, open(os.path.join(cd, 'info.json'), 'w'))
            open(os.path.join(cd, 'ok'), 'w').write('ok')
        info = json.load(open(os.path.join(cd, 'info.json')))
    paths = {n: os.path.join(cd, f'mir-{n}.json') for n in crates if os.path.exists(os.path.join(cd, f'mir-{n}.json'))}
    return crates, paths, info


REPO_FEATURES = 'test_suite/serde,test_suite/regex,test_suite/arbitrary,test_suite/schemars08,test_suite/new_unchecked,nutype/new_unchecked,nutype/schemars08'


def repo_facts():
    """MIR facts of the repository's *own* declarations (test_suite tests, examples, dummy, doc examples of the
    facade crate), built with the optional features on. Nothing is written into the repository."""
    cd = cache_dir('repo-own')
    with Lock(os.path.join(cd, '.lock')):
        if not os.path.exists(os.path.join(cd, 'ok')):
            t0 = time.time()
            sc = scratch()
            out = os.path.join(sc, 'repoout')
            os.makedirs(out, exist_ok=True)
            env = cargo_env({
                'LD_LIBRARY_PATH': nightly_sysroot() + '/lib',
                'RUSTFLAGS': '-Zmir-opt-level=0 -Awarnings',
                'RUSTC_WORKSPACE_WRAPPER': NUMIR,
                'NUMIR_OUT': out,
                'CARGO_TARGET_DIR': os.path.join(sc, 'repo-target'),
            })
            p = run(['cargo', '+nightly', 'check', '--workspace', '--tests', '--offline', '-j', '16', '--features', REPO_FEATURES],
                    repo(), env, "repository's own workspace (MIR facts)")
            shutil.rmtree(os.path.join(sc, 'repo-target'), ignore_errors=True)
            names = []
            for fn in sorted(os.listdir(out)):
                if fn.endswith('.json'):
                    cn = fn.rsplit('-', 1)[0]
                    dst = os.path.join(cd, f'mir-{cn}.json')
                    k = 1
                    while os.path.exists(dst):
                        k += 1
                        dst = os.path.join(cd, f'mir-{cn}-{k}.json')
                    shutil.move(os.path.join(out, fn), dst)
                    names.append(os.path.basename(dst))
            json.dump({'rc': p.returncode, 'built_s': round(time.time() - t0, 1), 'files': names,
                       'tail': p.stdout[-2500:] if p.returncode else ''}, open(os.path.join(cd, 'info.json'), 'w'))
            open(os.path.join(cd, 'ok'), 'w').write('ok')
        info = json.load(open(os.path.join(cd, 'info.json')))
    return [os.path.join(cd, f) for f in info['files']], info
