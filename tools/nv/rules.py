"""E-level rules: the extracted meaning of the generated program vs the reference model Sigma.

Every rule records obligations in a Report; a failed obligation is a Finding with a
key that names the declaration in normal form (no line numbers, no corpus ids).
"""
import re
from collections import Counter

from . import sym
from .sym import show, const_value

ORD = ('Lt', 'Eq', 'Gt', 'Un')
OPSET = {'Lt': {'Lt'}, 'Le': {'Lt', 'Eq'}, 'Gt': {'Gt'}, 'Ge': {'Gt', 'Eq'}, 'Eq': {'Eq'}, 'Ne': {'Lt', 'Gt', 'Un'}}
FLIP = {'Lt': 'Gt', 'Gt': 'Lt', 'Eq': 'Eq', 'Un': 'Un'}

SIGMA_ACCEPT = {
    'less': {'Lt'}, 'less_or_equal': {'Lt', 'Eq'}, 'greater': {'Gt'}, 'greater_or_equal': {'Gt', 'Eq'},
    'len_char_min': {'Gt', 'Eq'}, 'len_char_max': {'Lt', 'Eq'},
}
VARIANT = {
    'less': 'LessViolated', 'less_or_equal': 'LessOrEqualViolated', 'greater': 'GreaterViolated',
    'greater_or_equal': 'GreaterOrEqualViolated', 'len_char_min': 'LenCharMinViolated',
    'len_char_max': 'LenCharMaxViolated', 'not_empty': 'NotEmptyViolated', 'finite': 'FiniteViolated',
    'predicate': 'PredicateViolated', 'regex': 'RegexViolated',
}


class Finding:
    def __init__(self, prop, rule, decl_key, what, detail=None, decl=None):
        self.prop = prop
        self.rule = rule
        self.decl_key = decl_key
        self.what = what
        self.detail = detail or {}
        self.decl = decl

    @property
    def key(self):
        return f'{self.prop}|{self.rule}|{self.decl_key}|{self.what}'

    def __repr__(self):
        return f'Finding({self.key})'


class Report:
    def __init__(self, prop):
        self.prop = prop
        self.obligations = 0
        self.discharged = 0
        self.findings = []
        self.undecided = []
        self.instances = Counter()
        self.samples = []
        self.decls = set()
        self.bodies = set()

    def ob(self, rule, ok, g, what, detail=None):
        """one obligation; ok: True (discharged) | False (violated) | None (undecided)"""
        self.obligations += 1
        self.instances[rule] += 1
        if g is not None:
            self.decls.add(g.name if hasattr(g, 'name') else str(g))
        if ok is True:
            self.discharged += 1
            return True
        if ok is None:
            self.undecided.append({'rule': rule, 'decl': decl_key(g.d) if hasattr(g, 'd') else str(g), 'what': what, 'detail': detail})
            return None
        self.findings.append(Finding(self.prop, rule, decl_key(g.d) if hasattr(g, 'd') else str(g), what, detail,
                                     g.d if hasattr(g, 'd') else None))
        return False

    def sample(self, s):
        if len(self.samples) < 12:
            self.samples.append(s)


def decl_key(d):
    """normal form of a declaration: family, inner type and the attribute on one line"""
    from . import corpus
    import copy
    attr = corpus.render_attr(copy.deepcopy(d), 0)   # render_attr records positions: work on a copy
    attr = re.sub(r'\s+', ' ', attr)
    g = d['generics'] or ''
    return f"{d['family']}:{d['inner']}{g} {attr}"


# ----------------------------------------------------------------------------- term helpers

def callee_obj(ex, t):
    if t[0] == 'call':
        return ex.callees.get(t[1])
    return None


def cpath(ex, t):
    """resolved def-path of a call term's callee ('' for non-calls / closures)"""
    if t[0] != 'call':
        return ''
    c = ex.callees.get(t[1])
    if c is None:
        return t[1]
    return c.res_path or c.path


def cname(ex, t):
    if t[0] != 'call':
        return ''
    c = ex.callees.get(t[1])
    if c is None:
        return t[1]
    return c.name


def ctrait(ex, t):
    if t[0] != 'call':
        return None
    c = ex.callees.get(t[1])
    return c.trait if c else None


def tail(path, n=2):
    return '::'.join(path.split('::')[-n:])


def is_deref_call(ex, t):
    tr = ctrait(ex, t)
    return t[0] == 'call' and tr is not None and tr.endswith('ops::Deref') and cname(ex, t) == 'deref'


def is_unsize(t):
    return t[0] == 'cast' and 'Unsize' in t[1]


def strip_view(ex, t):
    """peel shared references, derefs, `Deref::deref` calls and unsizing casts: the value being viewed"""
    while True:
        if t[0] == 'ref' and not t[1]:
            t = t[2]
        elif t[0] == 'deref':
            t = t[1]
        elif is_deref_call(ex, t) and len(t[2]) == 1:
            t = t[2][0]
        elif is_unsize(t):
            t = t[3]
        elif t[0] == 'call' and cpath(ex, t) in ('alloc::string::String::as_str', 'std::string::String::as_str') and len(t[2]) == 1:
            t = t[2][0]
        else:
            return t


def contains(t, needle):
    if t == needle:
        return True
    if isinstance(t, tuple):
        for x in t:
            if isinstance(x, tuple) and contains(x, needle):
                return True
    return False


def has_param(t):
    if isinstance(t, tuple):
        if t and t[0] == 'param':
            return True
        for x in t:
            if isinstance(x, tuple) and has_param(x):
                return True
    return False


def params_of(t, acc=None):
    if acc is None:
        acc = set()
    if isinstance(t, tuple):
        if t and t[0] == 'param':
            acc.add(t[1])
        else:
            for x in t:
                if isinstance(x, tuple):
                    params_of(x, acc)
    return acc


def subst(t, mapping):
    if not isinstance(t, tuple):
        return t
    if t in mapping:
        return mapping[t]
    return tuple(subst(x, mapping) if isinstance(x, tuple) else x for x in t)


def is_adt(t, path_tail=None, vname=None):
    if t[0] != 'adt':
        return False
    if path_tail is not None and not (t[1] == path_tail or t[1].endswith('::' + path_tail)):
        return False
    if vname is not None and t[3] != vname:
        return False
    return True


def is_ok(t):
    return t is not None and t[0] == 'adt' and t[1] == 'core::result::Result' and t[3] == 'Ok'


def is_err(t):
    return t is not None and t[0] == 'adt' and t[1] == 'core::result::Result' and t[3] == 'Err'


def truth(v):
    """truth value of a switchInt edge on a bool"""
    if v == 0:
        return False
    return True


def parse_span(s):
    """'!file:l:c-l:c' -> (generated?, file, l1, c1, l2, c2)"""
    if s is None:
        return None
    gen = s.startswith('!')
    if gen:
        s = s[1:]
    m = re.match(r'^(.*):(\d+):(\d+)-(\d+):(\d+)$', s)
    if not m:
        return None
    return (gen, m.group(1), int(m.group(2)), int(m.group(3)), int(m.group(4)), int(m.group(5)))


def user_callee_id(ex, t):
    """identity of an opaque user callee: ('closure', line, col) | ('path', defpath) | None"""
    if t[0] != 'call':
        return None
    k = t[1]
    if k.startswith('closure@'):
        sp = parse_span(k[len('closure@'):])
        if sp is None:
            return ('closure', None, None)
        return ('closure', sp[2], sp[3], sp[0])
    c = ex.callees.get(k)
    if c is None:
        return None
    if c.lid is not None and c.dk in ('Fn',):
        return ('path', c.path)
    return None


def matches_user(ex, t, rec):
    """does call term t invoke the user function written in corpus record rec (closure or path)?"""
    uid = user_callee_id(ex, t)
    if uid is None:
        return False
    form = rec.get('form')
    if form == 'closure':
        if uid[0] != 'closure' or uid[3]:
            return False
        pos = rec.get('pos')
        return pos is not None and (uid[1], uid[2]) == tuple(pos)
    if form == 'path':
        return uid[0] == 'path' and uid[1] == rec.get('callee')
    return False


# ----------------------------------------------------------------------------- sanitizers

OWNING = ('alloc::string::ToString::to_string', 'alloc::borrow::ToOwned::to_owned', 'core::convert::From::from',
          'core::convert::Into::into', 'std::string::ToString::to_string', 'std::borrow::ToOwned::to_owned',
          'std::convert::From::from', 'std::convert::Into::into', 'alloc::str::<impl str>::to_string',
          'alloc::str::<impl alloc::borrow::ToOwned for str>::to_owned')


def is_owning_copy(ex, t):
    """String <- &str lossless owning conversion"""
    if t[0] != 'call' or len(t[2]) != 1:
        return False
    c = ex.callees.get(t[1])
    if c is None:
        return False
    if c.trait:
        tt = tail(c.trait, 1)
        if (tt, c.name) in (('ToString', 'to_string'), ('ToOwned', 'to_owned'), ('From', 'from'), ('Into', 'into')):
            return True
    return (c.res_path or c.path) in OWNING or c.path in OWNING


def str_method(ex, t, name):
    if t[0] != 'call':
        return False
    p = cpath(ex, t)
    return p.endswith('str::<impl str>::' + name)


def san_ops(ex, F, family):
    """normalise the stored-value term to (root, [ops]); ops in application order.
    op: 'trim' | 'lowercase' | 'uppercase' | ('with', call-term)"""
    ops = []
    t = F
    for _ in range(64):
        if t[0] == 'param':
            return t, list(reversed(ops))
        if t[0] == 'call':
            c = ex.callees.get(t[1])
            # impl Into<String> on the raw parameter
            if c is not None and c.trait and tail(c.trait, 1) == 'Into' and c.name == 'into' and len(t[2]) == 1 and t[2][0][0] == 'param':
                return ('into', t[2][0]), list(reversed(ops))
            if family == 'string':
                if str_method(ex, t, 'to_lowercase') and len(t[2]) == 1:
                    ops.append('lowercase')
                    t = strip_view(ex, t[2][0])
                    continue
                if str_method(ex, t, 'to_uppercase') and len(t[2]) == 1:
                    ops.append('uppercase')
                    t = strip_view(ex, t[2][0])
                    continue
                if is_owning_copy(ex, t):
                    inner = strip_view(ex, t[2][0])
                    if str_method(ex, inner, 'trim') and len(inner[2]) == 1:
                        ops.append('trim')
                        t = strip_view(ex, inner[2][0])
                        continue
            if user_callee_id(ex, t) is not None and len(t[2]) == 1:
                ops.append(('with', t))
                t = t[2][0]
                continue
        return ('unknown', t), list(reversed(ops))
    return ('unknown', t), list(reversed(ops))


def check_san_chain(rep, g, F, what_fn):
    """R-SAN: stored value = declared sanitizer chain applied to the raw parameter"""
    d = g.d
    ex = g.ex
    root, ops = san_ops(ex, F, d['family'])
    want_root_into = d['family'] == 'string'
    if root[0] == 'unknown':
        rep.ob('R-SAN', False, g, f'{what_fn}: stored value is not a sanitizer chain over the parameter',
               {'term': show(F), 'stuck_at': show(root[1])})
        return False
    if root[0] == 'into':
        root_ok = want_root_into and root[1] == ('param', 1)
    else:
        root_ok = (not want_root_into or True) and root == ('param', 1)
    rep.ob('R-SAN', bool(root_ok), g, f'{what_fn}: sanitizer chain is rooted in the raw parameter', {'root': show(root)})
    decl = d['sanitizers']
    same_len = len(ops) == len(decl)
    ok = same_len
    mism = None
    if same_len:
        for i, (op, s) in enumerate(zip(ops, decl)):
            if s['kind'] == 'with':
                if not (isinstance(op, tuple) and op[0] == 'with' and matches_user(ex, op[1], s)):
                    ok = False
                    mism = (i, show(op[1]) if isinstance(op, tuple) else op, s)
                    break
            else:
                if op != s['kind']:
                    ok = False
                    mism = (i, op if not isinstance(op, tuple) else show(op[1]), s['kind'])
                    break
    rep.ob('R-SAN', ok, g, f'{what_fn}: applied sanitizers equal the declared list, in order',
           {'extracted': [o if not isinstance(o, tuple) else 'with:' + show(o[1])[:80] for o in ops],
            'declared': [s['kind'] for s in decl], 'mismatch': str(mism)})
    return ok and root_ok


# ----------------------------------------------------------------------------- validators

def measure_kind(ex, x, F):
    """what of the stored value F a comparison operand measures"""
    sv = strip_view(ex, x)
    if sv == F:
        return 'value'
    if x[0] == 'call' and len(x[2]) == 1:
        p = cpath(ex, x)
        c = ex.callees.get(x[1])
        if c is not None and c.name == 'count' and c.trait and tail(c.trait, 1) == 'Iterator':
            inner = x[2][0]
            if inner[0] == 'call' and str_method(ex, inner, 'chars') and strip_view(ex, inner[2][0]) == F:
                return 'charcount'
        if (p.endswith('str::<impl str>::len') or p.endswith('string::String::len')) and strip_view(ex, x[2][0]) == F:
            return 'bytelen'
    return None


def norm_check(ex, cond, val, F):
    """normalise one (condition, edge taken on the accepting path) to a check record"""
    t = truth(val)
    c = cond
    while c[0] == 'un' and c[1] == 'Not':
        c = c[2]
        t = not t
    if c[0] == 'bin' and c[1] in OPSET:
        a, b = c[2], c[3]
        ma, mb = measure_kind(ex, a, F), measure_kind(ex, b, F)
        if ma and not mb and not contains(b, F):
            acc = {o for o in ORD if (o in OPSET[c[1]]) == t} - {'Un'}
            return {'kind': 'cmp', 'measure': ma, 'accept': acc, 'bound': b, 'aty': c[4]}
        if mb and not ma and not contains(a, F):
            acc = {FLIP[o] for o in ORD if (o in OPSET[c[1]]) == t} - {'Un'}
            return {'kind': 'cmp', 'measure': mb, 'accept': acc, 'bound': a, 'aty': c[4]}
        return {'kind': 'unknown', 'term': c}
    if c[0] == 'call':
        p = cpath(ex, c)
        if str_method(ex, c, 'is_empty') or p.endswith('string::String::is_empty'):
            if len(c[2]) == 1 and strip_view(ex, c[2][0]) == F:
                return {'kind': 'is_empty', 'truth': t}
        if re.search(r'::f(32|64)::<impl f(32|64)>::is_finite$', p) or re.search(r'^(core|std)::f(32|64)::.*is_finite$', p):
            if len(c[2]) == 1 and strip_view(ex, c[2][0]) == F:
                return {'kind': 'is_finite', 'truth': t}
        if p.endswith('regex::Regex::is_match') or p.endswith('::Regex::is_match'):
            if len(c[2]) == 2 and strip_view(ex, c[2][1]) == F:
                return {'kind': 'regex', 'truth': t, 're': strip_view(ex, c[2][0])}
        if user_callee_id(ex, c) is not None and len(c[2]) == 1 and strip_view(ex, c[2][0]) == F:
            return {'kind': 'user', 'truth': t, 'call': c}
    if c[0] == 'discr':
        inner = c[1]
        if inner[0] == 'call' and user_callee_id(ex, inner) is not None and len(inner[2]) == 1 and strip_view(ex, inner[2][0]) == F:
            variant = val
            if isinstance(val, tuple) and val[0] == 'not' and len(val[1]) == 1 and val[1][0] in (0, 1):
                variant = 1 - val[1][0]     # two-variant enum (Result): "not Err" is Ok
            return {'kind': 'user_result', 'variant': variant, 'call': inner}
    return {'kind': 'unknown', 'term': c}


def bound_matches(ex, chk, v, d):
    """R-BOUND: the bound a check compares against denotes what the user wrote. True/False/None"""
    b = chk['bound']
    form = v.get('form')
    if form == 'call':
        if b[0] == 'call' and not b[2]:
            c = ex.callees.get(b[1])
            return c is not None and c.path == v['text'].replace('()', '')
        return False
    want = v.get('value')
    if want is None:
        return None
    if b[0] != 'const' or b[2] is None:
        return None
    got = const_value(b)
    if isinstance(want, float) or sym.is_float(b[1]):
        return float(got) == float(want) or (got != got and want != want)
    return got == want


def regex_pattern(g, re_term):
    """for the generated static: the literal handed to Regex::new in its initialiser; for a user static: its path"""
    ex = g.ex
    t = re_term
    if t[0] == 'static':
        return t
    return None


def walk(t):
    """all sub-terms of a term"""
    if isinstance(t, tuple):
        yield t
        for x in t:
            if isinstance(x, tuple):
                yield from walk(x)


def static_regex_literal(g, static_lid):
    """the literal handed to Regex::new in the initialiser closure of the given (generated) static"""
    F = g.F
    for f in F.fns.values():
        if f['kind'] == 'Closure' and f['parent'] == static_lid:
            for o in g.ex.paths(f['lid']):
                for c, _ in o.conds:
                    for t in walk(c):
                        if t[0] == 'call' and cpath(g.ex, t).endswith('Regex::new') and len(t[2]) == 1:
                            a = strip_view(g.ex, t[2][0])
                            if a[0] == 'str':
                                return a[1]
    return None


def check_validator_chain(rep, g, oks, errs, F):
    """R-VAL / R-BOUND / R-ORDER for a standard validator list.
    Unordered (a NaN operand) is impossible for integers and a don't-care for float bounds
    (DESIGN section 3), so it is dropped from every accept set."""
    d = g.d
    ex = g.ex
    vs = d['validators']
    if len(oks) != 1:
        rep.ob('R-VAL', None if oks else False, g, f'try_new has {len(oks)} accepting paths (expected 1)',
               {'paths': [show(o.ret) for o in oks][:4]})
        if not oks:
            return
    ok = oks[0]
    checks = [norm_check(ex, c, v, F) for (c, v) in ok.conds]
    rep.ob('R-VAL', len(checks) == len(vs), g, 'number of checks on the accepting path equals the number of declared validators',
           {'extracted': len(checks), 'declared': [v['kind'] for v in vs], 'conds': [show(c)[:160] for c, _ in ok.conds]})
    for i, v in enumerate(vs):
        if i >= len(checks):
            break
        chk = checks[i]
        k = v['kind']
        what = f'validator #{i} `{k}`'
        if chk['kind'] == 'unknown':
            rep.ob('R-VAL', False, g, f'{what}: check #{i} is not a recognised test of the sanitized value',
                   {'cond': show(chk['term'])[:300]})
            continue
        good = False
        detail = {'extracted': {kk: (sorted(vv) if isinstance(vv, set) else (show(vv)[:200] if isinstance(vv, tuple) else vv)) for kk, vv in chk.items()}}
        if k in SIGMA_ACCEPT:
            want_measure = 'charcount' if k.startswith('len_char') else 'value'
            if chk['kind'] == 'cmp' and chk['measure'] == want_measure:
                acc = set(chk['accept'])
                if d['family'] == 'float':
                    acc.discard('Un')
                good = acc == SIGMA_ACCEPT[k]
                detail['sigma_accept'] = sorted(SIGMA_ACCEPT[k])
            rep.ob('R-VAL', good, g, f'{what}: relation and measured quantity agree with the reference model', detail)
            if chk['kind'] == 'cmp':
                bm = bound_matches(ex, chk, v, d)
                rep.ob('R-BOUND', bm, g, f'{what}: bound `{v["text"]}` denotes {v.get("value", v["text"])!r}',
                       {'extracted_bound': show(chk['bound']), 'written': v['text'], 'denotes': repr(v.get('value'))})
        elif k == 'not_empty':
            if chk['kind'] == 'is_empty':
                good = chk['truth'] is False
            elif chk['kind'] == 'cmp' and chk['measure'] in ('charcount', 'bytelen') and const_value(chk['bound']) == 0:
                good = set(chk['accept']) - {'Un'} == {'Gt'}
            rep.ob('R-VAL', good, g, f'{what}: accepts exactly non-empty values', detail)
        elif k == 'finite':
            good = chk['kind'] == 'is_finite' and chk['truth'] is True
            rep.ob('R-VAL', good, g, f'{what}: accepts exactly finite values', detail)
        elif k == 'predicate':
            good = chk['kind'] == 'user' and chk['truth'] is True and matches_user(ex, chk['call'], v)
            rep.ob('R-VAL', good, g, f'{what}: accepts exactly when the user predicate returns true', detail)
        elif k == 'regex':
            good = False
            if chk['kind'] == 'regex' and chk['truth'] is True:
                rt = chk['re']
                if rt[0] == 'static':
                    if v['form'] == 'path':
                        good = rt[1] == v['callee']
                    else:
                        lit = static_regex_literal(g, rt[2])
                        good = lit == v['pattern']
                        detail['literal'] = lit
            rep.ob('R-VAL', good, g, f'{what}: accepts exactly when the declared regex matches', detail)
        # the rejecting sibling: same prefix, opposite edge, i-th variant
        want_prefix = ok.conds[:i]
        cond_i = ok.conds[i]
        sib = [e for e in errs if e.conds[:i] == want_prefix and len(e.conds) == i + 1
               and e.conds[i][0] == cond_i[0] and truth(e.conds[i][1]) != truth(cond_i[1])]
        vname = VARIANT[k]
        okv = len(sib) == 1 and is_err(sib[0].ret) and is_adt(sib[0].ret[4][0], None, vname) and \
            g.err_adt is not None and sib[0].ret[4][0][1] == g.err_adt['path']
        rep.ob('R-ORDER', okv, g, f'{what}: failing it (after passing the earlier ones) returns Err({vname})',
               {'siblings': [show(s.ret) for s in sib], 'position': i})
    rep.ob('R-ORDER', len(errs) == len(vs), g, 'one rejecting path per declared validator, no other',
           {'err_paths': [show(e.ret) for e in errs][:8]})


def check_custom_validation(rep, g, oks, errs, F):
    d = g.d
    ex = g.ex
    c = d['custom']
    if len(oks) != 1 or len(errs) != 1:
        rep.ob('R-VAL', False, g, f'custom validation: expected one accepting and one rejecting path, got {len(oks)}/{len(errs)}', {})
        return
    ok, er = oks[0], errs[0]
    good = len(ok.conds) == 1
    chk = norm_check(ex, ok.conds[0][0], ok.conds[0][1], F) if good else {'kind': 'unknown'}
    good = good and chk['kind'] == 'user_result' and chk['variant'] == 0 and matches_user(ex, chk['call'], c)
    rep.ob('R-VAL', good, g, 'custom validation: accepts exactly when the user function returns Ok on the sanitized value',
           {'cond': show(ok.conds[0][0])[:300] if ok.conds else None})
    if good:
        call = chk['call']
        payload = ('field', ('downcast', call, 1, 'Err'), 0)
        e_ok = is_err(er.ret) and er.ret[4][0] == payload and len(er.conds) == 1 and er.conds[0][0] == ok.conds[0][0]
        rep.ob('R-ORDER', e_ok, g, "custom validation: the user function's error value is returned unchanged",
               {'returned': show(er.ret)})


# ----------------------------------------------------------------------------- constructors

def panic_events(o):
    return [e for e in o.events if e[0] in ('assert', 'assert-fails', 'panic')]


def check_ctor(rep, g):
    """R-GUARD + R-SAN + R-VAL + R-BOUND + R-PANIC on try_new / new"""
    d = g.d
    ex = g.ex
    hv = g.has_validation()
    tn, nw = g.inherent_fn('try_new'), g.inherent_fn('new')
    rep.ob('R-API', (tn is not None) == hv and (nw is not None) == (not hv), g,
           'constructor API: try_new iff validation is declared, new otherwise',
           {'try_new': tn is not None, 'new': nw is not None})
    fn = tn if hv else nw
    if fn is None:
        return None
    rep.bodies.add(fn['lid'])
    rep.ob('R-API', fn['vis'] == 'pub' and not fn['unsafe'], g, 'constructor is a safe pub fn', {'vis': fn['vis'], 'unsafe': fn['unsafe']})
    rep.ob('R-API', fn['const'] == bool(d['const_fn']), g, 'constructor constness follows the const_fn flag', {'const': fn['const']})
    # parameter type
    in_ty = g.F.tys(fn['inputs'][0]) if fn['inputs'] else None
    if d['family'] == 'string':
        rep.ob('R-API', in_ty is not None and 'Into<' in in_ty and 'String' in in_ty, g, 'string constructor takes impl Into<String>', {'input': in_ty})
    outs = g.paths(fn)
    bad = [o for o in outs if o.kind != 'return']
    div = [o for o in bad if o.kind == 'diverge']
    rep.ob('R-PANIC', not div, g, f'{fn["name"]}: no generated path diverges (panics)', {'paths': [o.why for o in div][:4]})
    und = [o for o in bad if o.kind != 'diverge']
    if und:
        rep.ob('R-GUARD', None, g, f'{fn["name"]}: some paths could not be followed', {'why': [o.why for o in und][:4]})
    pev = [e for o in outs for e in panic_events(o)]
    rep.ob('R-PANIC', not pev, g, f'{fn["name"]}: no assert/panic site on any path of generated code',
           {'events': [str(e[:3])[:200] for e in pev][:4]})
    rets = [o for o in outs if o.kind == 'return']
    adt_path = g.adt['path']
    if not hv:
        ok = len(rets) == 1 and not rets[0].conds and is_adt(rets[0].ret) and rets[0].ret[1] == adt_path and len(rets[0].ret[4]) == 1
        rep.ob('R-GUARD', ok, g, 'new: single unconditional path returning T(sanitized)', {'rets': [show(o.ret) for o in rets][:4]})
        if ok:
            F = rets[0].ret[4][0]
            check_san_chain(rep, g, F, 'new')
            rep.sample({'decl': decl_key(d), 'fn': 'new', 'stored': show(F)[:300]})
            return F
        return None
    oks = [o for o in rets if is_ok(o.ret)]
    errs = [o for o in rets if is_err(o.ret)]
    other = [o for o in rets if not is_ok(o.ret) and not is_err(o.ret)]
    rep.ob('R-GUARD', not other, g, 'try_new: every return is Ok(..) or Err(..) built on that path', {'other': [show(o.ret) for o in other][:4]})
    shape = bool(oks) and all(is_adt(o.ret[4][0]) and o.ret[4][0][1] == adt_path and len(o.ret[4][0][4]) == 1 for o in oks)
    rep.ob('R-GUARD', shape, g, 'try_new: accepting paths return Ok(T(value))', {'oks': [show(o.ret)[:200] for o in oks][:4]})
    if not shape:
        return None
    Fs = {o.ret[4][0][4][0] for o in oks}
    rep.ob('R-GUARD', len(Fs) == 1, g, 'try_new: all accepting paths store the same value term', {'n': len(Fs)})
    F = oks[0].ret[4][0][4][0]
    check_san_chain(rep, g, F, 'try_new')
    # every check must look at the stored value itself (validated value == wrapped value)
    if d['custom']:
        check_custom_validation(rep, g, oks, errs, F)
    else:
        check_validator_chain(rep, g, oks, errs, F)
    # no value is constructed on rejecting paths
    leak = [e for o in errs for e in o.events if e[0] == 'construct' and e[1] == adt_path]
    rep.ob('R-GUARD', not leak, g, 'try_new: no T is constructed on a rejecting path', {})
    rep.sample({'decl': decl_key(d), 'fn': 'try_new', 'stored': show(F)[:300],
                'accepting_path': [(show(c)[:160], truth(v)) for c, v in oks[0].conds],
                'rejecting': [show(e.ret) for e in errs]})
    return F


def check_into_inner(rep, g):
    fn = g.inherent_fn('into_inner')
    rep.ob('R-VIEW', fn is not None and fn['vis'] == 'pub', g, 'into_inner exists and is pub', {})
    if fn is None:
        return
    rep.bodies.add(fn['lid'])
    outs = g.paths(fn)
    ok = len(outs) == 1 and outs[0].kind == 'return' and outs[0].ret == ('field', ('param', 1), 0) and not outs[0].conds
    rep.ob('R-VIEW', ok, g, 'into_inner returns exactly the stored field', {'ret': [show(o.ret) for o in outs]})
