"""E-level rules: the extracted meaning of the generated program vs the reference model Sigma.

Every rule records obligations in a Report; a failed obligation is a Finding with a
key that names the declaration in normal form (no line numbers, no corpus ids).
"""
import re
from collections import Counter

from . import sym
from .sym import show, const_value
from .corpus import int_min as int_min_, int_max as int_max_

ORD = ('Lt', 'Eq', 'Gt', 'Un')
OPSET = {'Lt': {'Lt'}, 'Le': {'Lt', 'Eq'}, 'Gt': {'Gt'}, 'Ge': {'Gt', 'Eq'}, 'Eq': {'Eq'}, 'Ne': {'Lt', 'Gt', 'Un'}}
FLIP = {'Lt': 'Gt', 'Gt': 'Lt', 'Eq': 'Eq', 'Un': 'Un'}

SIGMA_ACCEPT = {
    'less': {'Lt'}, 'less_or_equal': {'Lt', 'Eq'}, 'greater': {'Gt'}, 'greater_or_equal': {'Gt', 'Eq'},
    'len_char_min': {'Gt', 'Eq'}, 'len_char_max': {'Lt', 'Eq'},
}
VARIANT = {
    'less': 'LessViolated', 'less_or_equal': 'LessOrEqualViolated', 'greater': 'GreaterViolated',
    'greater_or_equal': 'GreaterOrEqualViolated', 'len_char_min': 'LenCharMinViolated',
    'len_char_max': 'LenCharMaxViolated', 'not_empty': 'NotEmptyViolated', 'finite': 'FiniteViolated',
    'predicate': 'PredicateViolated', 'regex': 'RegexViolated',
}


class Finding:
    def __init__(self, prop, rule, decl_key, what, detail=None, decl=None):
        self.prop = prop
        self.rule = rule
        self.decl_key = decl_key
        self.what = what
        self.detail = detail or {}
        self.decl = decl

    site = None

    @property
    def key(self):
        if self.site is not None:
            return f'{self.prop}|{self.rule}|site|{self.site}'
        return f'{self.prop}|{self.rule}|{self.decl_key}|{self.what}'

    def __repr__(self):
        return f'Finding({self.key})'


class Report:
    def __init__(self, prop):
        self.prop = prop
        self.obligations = 0
        self.discharged = 0
        self.findings = []
        self.undecided = []
        self.instances = Counter()
        self.samples = []
        self.decls = set()
        self.bodies = set()

    def ob(self, rule, ok, g, what, detail=None, site=None):
        """one obligation; ok: True (discharged) | False (violated) | None (undecided).
        site: when the defect is a property of a generator template site rather than of one
        declaration, the finding is keyed by that site (so one known finding covers every
        declaration that instantiates the template, and nothing else)."""
        self.obligations += 1
        self.instances[rule] += 1
        if g is not None:
            self.decls.add(g.name if hasattr(g, 'name') else str(g))
        if ok is True:
            self.discharged += 1
            return True
        if ok is None:
            self.undecided.append({'rule': rule, 'decl': decl_key(g.d) if hasattr(g, 'd') else str(g), 'what': what, 'detail': detail})
            return None
        f = Finding(self.prop, rule, decl_key(g.d) if hasattr(g, 'd') else str(g), what, detail,
                    g.d if hasattr(g, 'd') else None)
        if site is not None:
            f.site = site
        self.findings.append(f)
        return False

    def sample(self, s):
        if len(self.samples) < 12:
            self.samples.append(s)


def decl_key(d):
    """normal form of a declaration: family, inner type and the attribute on one line"""
    if d.get('unknown'):
        return decl_key_unknown(d)
    from . import corpus
    import copy
    attr = corpus.render_attr(copy.deepcopy(d), 0)   # render_attr records positions: work on a copy
    attr = re.sub(r'\s+', ' ', attr)
    g = d['generics'] or ''
    return f"{d['family']}:{d['inner']}{g} {attr}"


# ----------------------------------------------------------------------------- term helpers

def callee_obj(ex, t):
    if t[0] == 'call':
        return ex.callees.get(t[1])
    return None


def cpath(ex, t):
    """resolved def-path of a call term's callee ('' for non-calls / closures)"""
    if t[0] != 'call':
        return ''
    c = ex.callees.get(t[1])
    if c is None:
        return t[1]
    return c.res_path or c.path


def cname(ex, t):
    if t[0] != 'call':
        return ''
    c = ex.callees.get(t[1])
    if c is None:
        return t[1]
    return c.name


def ctrait(ex, t):
    if t[0] != 'call':
        return None
    c = ex.callees.get(t[1])
    return c.trait if c else None


def tail(path, n=2):
    return '::'.join(path.split('::')[-n:])


def is_deref_call(ex, t):
    tr = ctrait(ex, t)
    return t[0] == 'call' and tr is not None and tr.endswith('ops::Deref') and cname(ex, t) == 'deref'


def is_unsize(t):
    return t[0] == 'cast' and 'Unsize' in t[1]


def strip_view(ex, t):
    """peel shared references, derefs, `Deref::deref` calls and unsizing casts: the value being viewed"""
    while True:
        if t[0] == 'ref' and not t[1]:
            t = t[2]
        elif t[0] == 'deref':
            t = t[1]
        elif is_deref_call(ex, t) and len(t[2]) == 1:
            t = t[2][0]
        elif is_unsize(t):
            t = t[3]
        elif t[0] == 'call' and cpath(ex, t) in ('alloc::string::String::as_str', 'std::string::String::as_str') and len(t[2]) == 1:
            t = t[2][0]
        else:
            return t


def contains(t, needle):
    if t == needle:
        return True
    if isinstance(t, tuple):
        for x in t:
            if isinstance(x, tuple) and contains(x, needle):
                return True
    return False


def has_param(t):
    if isinstance(t, tuple):
        if t and t[0] == 'param':
            return True
        for x in t:
            if isinstance(x, tuple) and has_param(x):
                return True
    return False


def params_of(t, acc=None):
    if acc is None:
        acc = set()
    if isinstance(t, tuple):
        if t and t[0] == 'param':
            acc.add(t[1])
        else:
            for x in t:
                if isinstance(x, tuple):
                    params_of(x, acc)
    return acc


def subst(t, mapping):
    if not isinstance(t, tuple):
        return t
    if t in mapping:
        return mapping[t]
    return tuple(subst(x, mapping) if isinstance(x, tuple) else x for x in t)


def is_adt(t, path_tail=None, vname=None):
    if t[0] != 'adt':
        return False
    if path_tail is not None and not (t[1] == path_tail or t[1].endswith('::' + path_tail)):
        return False
    if vname is not None and t[3] != vname:
        return False
    return True


def is_ok(t):
    return t is not None and t[0] == 'adt' and t[1] == 'core::result::Result' and t[3] == 'Ok'


def is_err(t):
    return t is not None and t[0] == 'adt' and t[1] == 'core::result::Result' and t[3] == 'Err'


def truth(v):
    """truth value of a switchInt edge on a bool"""
    if v == 0:
        return False
    return True


def unreborrow(t):
    """`&*x` is `x` for a stored value that is itself a shared reference (MIR copies a `&'a T` by reborrowing it)"""
    if t is not None and t[0] == 'ref' and not t[1] and t[2][0] == 'deref':
        return t[2][1]
    return t


def parse_span(s):
    """'!file:l:c-l:c' -> (generated?, file, l1, c1, l2, c2)"""
    if s is None:
        return None
    gen = s.startswith('!')
    if gen:
        s = s[1:]
    m = re.match(r'^(.*):(\d+):(\d+)-(\d+):(\d+)$', s)
    if not m:
        return None
    return (gen, m.group(1), int(m.group(2)), int(m.group(3)), int(m.group(4)), int(m.group(5)))


def user_callee_id(ex, t):
    """identity of an opaque user callee: ('closure', line, col) | ('path', defpath) | None"""
    if t[0] != 'call':
        return None
    k = t[1]
    if k.startswith('closure@'):
        sp = parse_span(k[len('closure@'):])
        if sp is None:
            return ('closure', None, None)
        return ('closure', sp[2], sp[3], sp[0])
    c = ex.callees.get(k)
    if c is None:
        return None
    if c.lid is not None and c.dk in ('Fn',):
        return ('path', c.path)
    return None


def matches_user(ex, t, rec):
    """does call term t invoke the user function written in corpus record rec (closure or path)?"""
    uid = user_callee_id(ex, t)
    if uid is None:
        return False
    form = rec.get('form')
    if form == 'closure':
        if uid[0] != 'closure' or uid[3]:
            return False
        pos = rec.get('pos')
        return pos is not None and (uid[1], uid[2]) == tuple(pos)
    if form == 'path':
        return uid[0] == 'path' and uid[1] == rec.get('callee')
    return False


# ----------------------------------------------------------------------------- sanitizers

OWNING = ('alloc::string::ToString::to_string', 'alloc::borrow::ToOwned::to_owned', 'core::convert::From::from',
          'core::convert::Into::into', 'std::string::ToString::to_string', 'std::borrow::ToOwned::to_owned',
          'std::convert::From::from', 'std::convert::Into::into', 'alloc::str::<impl str>::to_string',
          'alloc::str::<impl alloc::borrow::ToOwned for str>::to_owned')


def is_owning_copy(ex, t):
    """String <- &str lossless owning conversion"""
    if t[0] != 'call' or len(t[2]) != 1:
        return False
    c = ex.callees.get(t[1])
    if c is None:
        return False
    if c.trait:
        tt = tail(c.trait, 1)
        if (tt, c.name) in (('ToString', 'to_string'), ('ToOwned', 'to_owned'), ('From', 'from'), ('Into', 'into')):
            return True
    return (c.res_path or c.path) in OWNING or c.path in OWNING


def str_method(ex, t, name):
    if t[0] != 'call':
        return False
    p = cpath(ex, t)
    return p.endswith('str::<impl str>::' + name)


def san_ops(ex, F, family):
    """normalise the stored-value term to (root, [ops]); ops in application order.
    op: 'trim' | 'lowercase' | 'uppercase' | ('with', call-term)"""
    ops = []
    t = F
    for _ in range(64):
        if t[0] == 'param':
            return t, list(reversed(ops))
        if t[0] == 'call':
            c = ex.callees.get(t[1])
            # impl Into<String> on the raw parameter
            if c is not None and c.trait and tail(c.trait, 1) == 'Into' and c.name == 'into' and len(t[2]) == 1 and t[2][0][0] == 'param':
                return ('into', t[2][0]), list(reversed(ops))
            if family == 'string':
                if str_method(ex, t, 'to_lowercase') and len(t[2]) == 1:
                    ops.append('lowercase')
                    t = strip_view(ex, t[2][0])
                    continue
                if str_method(ex, t, 'to_uppercase') and len(t[2]) == 1:
                    ops.append('uppercase')
                    t = strip_view(ex, t[2][0])
                    continue
                if is_owning_copy(ex, t):
                    inner = strip_view(ex, t[2][0])
                    if str_method(ex, inner, 'trim') and len(inner[2]) == 1:
                        ops.append('trim')
                        t = strip_view(ex, inner[2][0])
                        continue
                    # a lossless String <-> &str conversion between two steps is not a step of its own
                    if ops and inner[0] == 'call':
                        t = inner
                        continue
                if str_method(ex, t, 'trim') and len(t[2]) == 1 and ops:
                    # `x.trim().to_lowercase()`: the trimmed slice feeds the next step directly (no owned copy in between)
                    ops.append('trim')
                    t = strip_view(ex, t[2][0])
                    continue
            if user_callee_id(ex, t) is not None and len(t[2]) == 1:
                ops.append(('with', t))
                t = t[2][0]
                continue
        return ('unknown', t), list(reversed(ops))
    return ('unknown', t), list(reversed(ops))


def check_san_chain(rep, g, F, what_fn):
    """R-SAN: stored value = declared sanitizer chain applied to the raw parameter"""
    d = g.d
    ex = g.ex
    root, ops = san_ops(ex, F, d['family'])
    want_root_into = d['family'] == 'string'
    if root[0] == 'unknown':
        rep.ob('R-SAN', False, g, f'{what_fn}: stored value is not a sanitizer chain over the parameter',
               {'term': show(F), 'stuck_at': show(root[1])})
        return False
    if root[0] == 'into':
        root_ok = want_root_into and root[1] == ('param', 1)
    else:
        root_ok = (not want_root_into or True) and root == ('param', 1)
    rep.ob('R-SAN', bool(root_ok), g, f'{what_fn}: sanitizer chain is rooted in the raw parameter', {'root': show(root)})
    decl = d['sanitizers']
    same_len = len(ops) == len(decl)
    ok = same_len
    mism = None
    if same_len:
        for i, (op, s) in enumerate(zip(ops, decl)):
            if s['kind'] == 'with':
                if not (isinstance(op, tuple) and op[0] == 'with' and matches_user(ex, op[1], s)):
                    ok = False
                    mism = (i, show(op[1]) if isinstance(op, tuple) else op, s)
                    break
            else:
                if op != s['kind']:
                    ok = False
                    mism = (i, op if not isinstance(op, tuple) else show(op[1]), s['kind'])
                    break
    rep.ob('R-SAN', ok, g, f'{what_fn}: applied sanitizers equal the declared list, in order',
           {'extracted': [o if not isinstance(o, tuple) else 'with:' + show(o[1])[:80] for o in ops],
            'declared': [s['kind'] for s in decl], 'mismatch': str(mism)})
    return ok and root_ok


# ----------------------------------------------------------------------------- validators

def measure_kind(ex, x, F):
    """what of the stored value F a comparison operand measures"""
    sv = strip_view(ex, x)
    if sv == F:
        return 'value'
    if x[0] == 'call' and len(x[2]) == 1:
        p = cpath(ex, x)
        c = ex.callees.get(x[1])
        if c is not None and c.name == 'count' and c.trait and tail(c.trait, 1) == 'Iterator':
            inner = x[2][0]
            if inner[0] == 'call' and str_method(ex, inner, 'chars') and strip_view(ex, inner[2][0]) == F:
                return 'charcount'
            # `chars().take(L).count()` = min(char count, L)
            ci = ex.callees.get(inner[1]) if inner[0] == 'call' else None
            if ci is not None and ci.name == 'take' and len(inner[2]) == 2:
                it = inner[2][0]
                if it[0] == 'call' and str_method(ex, it, 'chars') and strip_view(ex, it[2][0]) == F:
                    return ('charcount_capped', inner[2][1])
        if (p.endswith('str::<impl str>::len') or p.endswith('string::String::len')) and strip_view(ex, x[2][0]) == F:
            return 'bytelen'
    return None


def int_widening(t):
    """(operand, source type) if t is an integer cast that preserves every value of the source type"""
    if t[0] == 'cast' and t[1] == 'IntToInt' and len(t) > 4 and t[4] and sym.is_int(t[4]) and sym.is_int(t[2]):
        if int_min_(t[2]) <= int_min_(t[4]) and int_max_(t[4]) <= int_max_(t[2]):
            return t[3], t[4]
    return None


def norm_check(ex, cond, val, F):
    """normalise one (condition, edge taken on the accepting path) to a check record"""
    t = truth(val)
    c = cond
    while True:
        if c[0] == 'un' and c[1] == 'Not':
            c = c[2]
            t = not t
            continue
        # `x == false`, `x != true`, `true == x`, ... are spellings of `!x` / `x`
        if c[0] == 'bin' and c[1] in ('Eq', 'Ne') and any(o[0] == 'const' and o[1] == 'bool' and o[2] is not None for o in (c[2], c[3])):
            k, x = (c[2], c[3]) if (c[2][0] == 'const' and c[2][1] == 'bool') else (c[3], c[2])
            if x[0] == 'const':
                break
            same = bool(const_value(k)) == (c[1] == 'Eq')
            c = x
            t = t if same else not t
            continue
        break
    if c[0] == 'bin' and c[1] in OPSET:
        a, b = c[2], c[3]
        # `(x as W) op (k as W)` for a value-preserving integer widening T -> W orders exactly like `x op k`
        wa, wb = int_widening(a), int_widening(b)
        if wa and wb and wa[1] == wb[1]:
            a, b = wa[0], wb[0]
        elif wa and b[0] == 'const' and b[2] is not None and sym.is_int(b[1]) and int_min_(wa[1]) <= const_value(b) <= int_max_(wa[1]):
            a, b = wa[0], sym.mk_const(wa[1], const_value(b))
        elif wb and a[0] == 'const' and a[2] is not None and sym.is_int(a[1]) and int_min_(wb[1]) <= const_value(a) <= int_max_(wb[1]):
            a, b = sym.mk_const(wb[1], const_value(a)), wb[0]
        ma, mb = measure_kind(ex, a, F), measure_kind(ex, b, F)
        for (m_, side, other) in ((ma, 'a', b), (mb, 'b', a)):
            if isinstance(m_, tuple) and m_[0] == 'charcount_capped':
                # min(cc, L) compared with B: the same verdict as cc compared with B iff the cap does not bite below/at B
                cap = m_[1]
                acc_ = {o for o in ORD if (o in OPSET[c[1]]) == t} - {'Un'}
                if side == 'b':
                    acc_ = {FLIP[o] for o in acc_}
                eff = None
                if cap[0] == 'const' and other[0] == 'const' and cap[2] is not None and other[2] is not None:
                    L, B = const_value(cap), const_value(other)
                    need_strict = acc_ in ({'Lt', 'Eq'}, {'Gt'})          # m <= B / m > B need L > B ; m >= B / m < B need L >= B
                    eff = (L > B) if need_strict else (L >= B)
                if eff is True:
                    if side == 'a':
                        ma = 'charcount'
                    else:
                        mb = 'charcount'
                elif eff is False:
                    return {'kind': 'cmp', 'measure': 'charcount capped below the bound (the comparison is vacuous)', 'accept': acc_, 'bound': other, 'aty': c[4]}
                else:
                    return {'kind': 'unknown', 'term': c}
        if ma and not mb and not contains(b, F):
            acc = {o for o in ORD if (o in OPSET[c[1]]) == t} - {'Un'}
            return {'kind': 'cmp', 'measure': ma, 'accept': acc, 'bound': b, 'aty': c[4]}
        if mb and not ma and not contains(a, F):
            acc = {FLIP[o] for o in ORD if (o in OPSET[c[1]]) == t} - {'Un'}
            return {'kind': 'cmp', 'measure': mb, 'accept': acc, 'bound': a, 'aty': c[4]}
        return {'kind': 'unknown', 'term': c}
    if c[0] == 'call':
        p = cpath(ex, c)
        if str_method(ex, c, 'is_empty') or p.endswith('string::String::is_empty'):
            if len(c[2]) == 1 and strip_view(ex, c[2][0]) == F:
                return {'kind': 'is_empty', 'truth': t}
        if re.search(r'::f(32|64)::<impl f(32|64)>::is_finite$', p) or re.search(r'^(core|std)::f(32|64)::.*is_finite$', p):
            if len(c[2]) == 1 and strip_view(ex, c[2][0]) == F:
                return {'kind': 'is_finite', 'truth': t}
        if p.endswith('regex::Regex::is_match') or p.endswith('::Regex::is_match'):
            if len(c[2]) == 2 and strip_view(ex, c[2][1]) == F:
                return {'kind': 'regex', 'truth': t, 're': strip_view(ex, c[2][0])}
        if user_callee_id(ex, c) is not None and len(c[2]) == 1 and strip_view(ex, c[2][0]) == F:
            return {'kind': 'user', 'truth': t, 'call': c}
    if c[0] == 'discr':
        inner = c[1]
        if inner[0] == 'call' and user_callee_id(ex, inner) is not None and len(inner[2]) == 1 and strip_view(ex, inner[2][0]) == F:
            variant = val
            if isinstance(val, tuple) and val[0] == 'not' and len(val[1]) == 1 and val[1][0] in (0, 1):
                variant = 1 - val[1][0]     # two-variant enum (Result): "not Err" is Ok
            return {'kind': 'user_result', 'variant': variant, 'call': inner}
    return {'kind': 'unknown', 'term': c}


def fold_trivial_call(ex, t):
    """`f()` for a local function whose body is `return <constant>` is that constant"""
    if t[0] == 'call' and not t[2]:
        c = ex.callees.get(t[1])
        if c is not None and c.lid is not None:
            try:
                outs = ex.paths(c.lid)
            except Exception:
                return t
            if len(outs) == 1 and outs[0].kind == 'return' and not outs[0].conds and outs[0].ret and outs[0].ret[0] == 'const' and outs[0].ret[2] is not None:
                return outs[0].ret
    return t


def bound_matches(ex, chk, v, d):
    """R-BOUND: the bound a check compares against denotes what the user wrote. True/False/None"""
    b = chk['bound']
    form = v.get('form')
    if form == 'call':
        if b[0] == 'call' and not b[2]:
            c = ex.callees.get(b[1])
            return c is not None and c.path == v['text'].replace('()', '')
        if not (b[0] == 'const' and b[2] is not None and v.get('value') is not None):
            return False
        # the call was evaluated at compile time (a bound bound to a `const` first): fall through to the value comparison
    want = v.get('value')
    if want is None:
        return None
    if b[0] != 'const' or b[2] is None:
        return None
    got = const_value(b)
    if isinstance(want, float) or sym.is_float(b[1]):
        want = float(want)
        if b[1] == 'f32':
            want = sym.float_value('f32', sym.float_bits('f32', want))    # what the spelling denotes *as an f32*
        return float(got) == want or (got != got and want != want)
    return got == want


def regex_pattern(g, re_term):
    """for the generated static: the literal handed to Regex::new in its initialiser; for a user static: its path"""
    ex = g.ex
    t = re_term
    if t[0] == 'static':
        return t
    return None


def walk(t):
    """all sub-terms of a term"""
    if isinstance(t, tuple) and t:
        if isinstance(t[0], str):
            yield t
        for x in t:
            if isinstance(x, tuple):
                yield from walk(x)


def static_regex_literal(g, static_lid):
    """the literal handed to Regex::new in the initialiser closure of the given (generated) static - or, when the
    initialiser is a plain `LazyLock::new(<fn item>)`, in the one generated fn item next to the static that builds a Regex"""
    F = g.F

    def literal_in(f):
        for o in g.ex.paths(f['lid']):
            terms = [c for c, _ in o.conds] + ([o.ret] if o.ret else [])
            for c in terms:
                for t in walk(c):
                    if t[0] == 'call' and cpath(g.ex, t).endswith('Regex::new') and len(t[2]) == 1:
                        a = strip_view(g.ex, t[2][0])
                        if a[0] == 'str':
                            return a[1]
        return None
    for f in F.fns.values():
        if f['kind'] == 'Closure' and f['parent'] == static_lid:
            lit = literal_in(f)
            if lit is not None:
                return lit
    st = [c for c in F.consts if c['lid'] == static_lid]
    if st:
        scope = st[0]['path'].rsplit('::', 1)[0]
        sib = [f for f in F.fns.values() if f['kind'] == 'Fn' and f['path'].rsplit('::', 1)[0] == scope and str(f.get('span', '')).startswith('!')
               and F.tys(f['output']).endswith('Regex')]
        if len(sib) == 1:
            return literal_in(sib[0])
    return None


def check_validator_chain(rep, g, oks, errs, F):
    """R-VAL / R-BOUND / R-ORDER for a standard validator list.
    Unordered (a NaN operand) is impossible for integers and a don't-care for float bounds
    (DESIGN section 3), so it is dropped from every accept set."""
    d = g.d
    ex = g.ex
    vs = d['validators']
    if len(oks) != 1:
        rep.ob('R-VAL', None if oks else False, g, f'try_new has {len(oks)} accepting paths (expected 1)',
               {'paths': [show(o.ret) for o in oks][:4]})
        if not oks:
            return
    ok = oks[0]
    checks = [norm_check(ex, c, v, F) for (c, v) in ok.conds]
    # evaluation order: a user predicate is *invoked* only after every validator written before it has been decided
    # (its result being branched on at the right place is not enough: the call itself may panic or have effects)
    for i, chk in enumerate(checks):
        if chk.get('kind') in ('user', 'user_result') and chk.get('call') is not None:
            key = chk['call'][1]
            ev = [e for e in ok.events if e[0] == 'usercall' and e[1] == key]
            if ev:
                rep.ob('R-ORDER', min(e[2] for e in ev) >= i, g,
                       f'validator #{i}: the user function is invoked after the {i} validator(s) written before it were decided',
                       {'decisions_before_the_call': min(e[2] for e in ev), 'expected_at_least': i})
    rep.ob('R-VAL', len(checks) == len(vs), g, 'number of checks on the accepting path equals the number of declared validators',
           {'extracted': len(checks), 'declared': [v['kind'] for v in vs], 'conds': [show(c)[:160] for c, _ in ok.conds]})
    for i, v in enumerate(vs):
        if i >= len(checks):
            break
        chk = checks[i]
        k = v['kind']
        what = f'validator #{i} `{k}`'
        if chk['kind'] == 'unknown':
            rep.ob('R-VAL', False, g, f'{what}: check #{i} is not a recognised test of the sanitized value',
                   {'cond': show(chk['term'])[:300]})
            continue
        good = False
        detail = {'extracted': {kk: (sorted(vv) if isinstance(vv, set) else (show(vv)[:200] if isinstance(vv, tuple) else vv)) for kk, vv in chk.items()}}
        if k in SIGMA_ACCEPT:
            want_measure = 'charcount' if k.startswith('len_char') else 'value'
            if chk['kind'] == 'cmp' and chk['measure'] == want_measure:
                acc = set(chk['accept'])
                if d['family'] == 'float':
                    acc.discard('Un')
                good = acc == SIGMA_ACCEPT[k]
                detail['sigma_accept'] = sorted(SIGMA_ACCEPT[k])
            rep.ob('R-VAL', good, g, f'{what}: relation and measured quantity agree with the reference model', detail)
            if chk['kind'] == 'cmp':
                bm = bound_matches(ex, chk, v, d)
                rep.ob('R-BOUND', bm, g, f'{what}: bound `{v["text"]}` denotes {v.get("value", v["text"])!r}',
                       {'extracted_bound': show(chk['bound']), 'written': v['text'], 'denotes': repr(v.get('value'))})
                if 'site_value' in v and rep.prop == 'C01':
                    # the name is also defined one scope further in / out with another value: the bound the user declared
                    # is what the expression denotes where it is written
                    sv = dict(v, value=v['site_value'])
                    rep.ob('R-SCOPE', bound_matches(ex, chk, sv, d), g,
                           f'{what}: bound `{v["text"]}` denotes {v["site_value"]!r} at the place of the declaration',
                           {'extracted_bound': show(chk['bound']), 'written': v['text'], 'at_declaration_site': repr(v['site_value'])},
                           site='expressions of the attribute are resolved inside the hidden module, not where they are written '
                                '(items local to an enclosing function body are invisible; `super::` starts one level deeper)')
        elif k == 'not_empty':
            if chk['kind'] == 'is_empty':
                good = chk['truth'] is False
            elif chk['kind'] == 'cmp' and chk['measure'] in ('charcount', 'bytelen') and const_value(chk['bound']) == 0:
                good = set(chk['accept']) - {'Un', 'Lt'} == {'Gt'}     # a length is never below zero
            rep.ob('R-VAL', good, g, f'{what}: accepts exactly non-empty values', detail)
        elif k == 'finite':
            good = chk['kind'] == 'is_finite' and chk['truth'] is True
            rep.ob('R-VAL', good, g, f'{what}: accepts exactly finite values', detail)
        elif k == 'predicate':
            good = chk['kind'] == 'user' and chk['truth'] is True and matches_user(ex, chk['call'], v)
            rep.ob('R-VAL', good, g, f'{what}: accepts exactly when the user predicate returns true', detail)
        elif k == 'regex':
            good = False
            if chk['kind'] == 'regex' and chk['truth'] is True:
                rt = chk['re']
                if rt[0] == 'static':
                    if v['form'] == 'path':
                        good = rt[1] == v['callee']
                    else:
                        lit = static_regex_literal(g, rt[2])
                        good = lit == v['pattern']
                        detail['literal'] = lit
            rep.ob('R-VAL', good, g, f'{what}: accepts exactly when the declared regex matches', detail)
        # the rejecting sibling: same prefix, opposite edge, i-th variant
        want_prefix = ok.conds[:i]
        cond_i = ok.conds[i]
        sib = [e for e in errs if e.conds[:i] == want_prefix and len(e.conds) == i + 1
               and e.conds[i][0] == cond_i[0] and truth(e.conds[i][1]) != truth(cond_i[1])]
        vname = VARIANT[k]
        okv = len(sib) == 1 and is_err(sib[0].ret) and is_adt(sib[0].ret[4][0], None, vname) and \
            g.err_adt is not None and sib[0].ret[4][0][1] == g.err_adt['path']
        rep.ob('R-ORDER', okv, g, f'{what}: failing it (after passing the earlier ones) returns Err({vname})',
               {'siblings': [show(s.ret) for s in sib], 'position': i})
    rep.ob('R-ORDER', len(errs) == len(vs), g, 'one rejecting path per declared validator, no other',
           {'err_paths': [show(e.ret) for e in errs][:8]})


def check_custom_validation(rep, g, oks, errs, F):
    d = g.d
    ex = g.ex
    c = d['custom']
    if len(oks) != 1 or len(errs) != 1:
        rep.ob('R-VAL', False, g, f'custom validation: expected one accepting and one rejecting path, got {len(oks)}/{len(errs)}', {})
        return
    ok, er = oks[0], errs[0]
    good = len(ok.conds) == 1
    chk = norm_check(ex, ok.conds[0][0], ok.conds[0][1], F) if good else {'kind': 'unknown'}
    good = good and chk['kind'] == 'user_result' and chk['variant'] == 0 and matches_user(ex, chk['call'], c)
    rep.ob('R-VAL', good, g, 'custom validation: accepts exactly when the user function returns Ok on the sanitized value',
           {'cond': show(ok.conds[0][0])[:300] if ok.conds else None})
    if good:
        call = chk['call']
        payload = ('field', ('downcast', call, 1, 'Err'), 0)
        e_ok = is_err(er.ret) and er.ret[4][0] == payload and len(er.conds) == 1 and er.conds[0][0] == ok.conds[0][0]
        rep.ob('R-ORDER', e_ok, g, "custom validation: the user function's error value is returned unchanged",
               {'returned': show(er.ret)})


# ----------------------------------------------------------------------------- constructors

def panic_events(o):
    return [e for e in o.events if e[0] in ('assert', 'assert-fails', 'panic')]


def check_ctor(rep, g):
    """R-GUARD + R-SAN + R-VAL + R-BOUND + R-PANIC on try_new / new"""
    d = g.d
    ex = g.ex
    hv = g.has_validation()
    tn, nw = g.inherent_fn('try_new'), g.inherent_fn('new')
    rep.ob('R-API', (tn is not None) == hv and (nw is not None) == (not hv), g,
           'constructor API: try_new iff validation is declared, new otherwise',
           {'try_new': tn is not None, 'new': nw is not None})
    fn = tn if hv else nw
    if fn is None:
        return None
    rep.bodies.add(fn['lid'])
    rep.ob('R-API', fn['vis'] == 'pub' and not fn['unsafe'], g, 'constructor is a safe pub fn', {'vis': fn['vis'], 'unsafe': fn['unsafe']})
    rep.ob('R-API', fn['const'] == bool(d['const_fn']), g, 'constructor constness follows the const_fn flag', {'const': fn['const']})
    # parameter type
    in_ty = g.F.tys(fn['inputs'][0]) if fn['inputs'] else None
    if d['family'] == 'string':
        rep.ob('R-API', in_ty is not None and 'Into<' in in_ty and 'String' in in_ty, g, 'string constructor takes impl Into<String>', {'input': in_ty})
    outs = g.paths(fn)
    bad = [o for o in outs if o.kind != 'return']
    div = [o for o in bad if o.kind == 'diverge']
    rep.ob('R-PANIC', not div, g, f'{fn["name"]}: no generated path diverges (panics)', {'paths': [o.why for o in div][:4]})
    und = [o for o in bad if o.kind != 'diverge']
    if und:
        rep.ob('R-GUARD', None, g, f'{fn["name"]}: some paths could not be followed', {'why': [o.why for o in und][:4]})
    pev = [e for o in outs for e in panic_events(o)]
    rep.ob('R-PANIC', not pev, g, f'{fn["name"]}: no assert/panic site on any path of generated code',
           {'events': [str(e[:3])[:200] for e in pev][:4]})
    rets = [o for o in outs if o.kind == 'return']
    adt_path = g.adt['path']
    if not hv:
        ok = len(rets) == 1 and not rets[0].conds and is_adt(rets[0].ret) and rets[0].ret[1] == adt_path and len(rets[0].ret[4]) == 1
        rep.ob('R-GUARD', ok, g, 'new: single unconditional path returning T(sanitized)', {'rets': [show(o.ret) for o in rets][:4]})
        if ok:
            F = rets[0].ret[4][0]
            check_san_chain(rep, g, F, 'new')
            rep.sample({'decl': decl_key(d), 'fn': 'new', 'stored': show(F)[:300]})
            return F
        return None
    oks = [o for o in rets if is_ok(o.ret)]
    errs = [o for o in rets if is_err(o.ret)]
    other = [o for o in rets if not is_ok(o.ret) and not is_err(o.ret)]
    rep.ob('R-GUARD', not other, g, 'try_new: every return is Ok(..) or Err(..) built on that path', {'other': [show(o.ret) for o in other][:4]})
    shape = bool(oks) and all(is_adt(o.ret[4][0]) and o.ret[4][0][1] == adt_path and len(o.ret[4][0][4]) == 1 for o in oks)
    rep.ob('R-GUARD', shape, g, 'try_new: accepting paths return Ok(T(value))', {'oks': [show(o.ret)[:200] for o in oks][:4]})
    if not shape:
        return None
    Fs = {o.ret[4][0][4][0] for o in oks}
    rep.ob('R-GUARD', len(Fs) == 1, g, 'try_new: all accepting paths store the same value term', {'n': len(Fs)})
    F = oks[0].ret[4][0][4][0]
    check_san_chain(rep, g, F, 'try_new')
    # every check must look at the stored value itself (validated value == wrapped value)
    if d['custom']:
        check_custom_validation(rep, g, oks, errs, F)
    else:
        check_validator_chain(rep, g, oks, errs, F)
    # no value is constructed on rejecting paths
    leak = [e for o in errs for e in o.events if e[0] == 'construct' and e[1] == adt_path]
    rep.ob('R-GUARD', not leak, g, 'try_new: no T is constructed on a rejecting path', {})
    rep.sample({'decl': decl_key(d), 'fn': 'try_new', 'stored': show(F)[:300],
                'accepting_path': [(show(c)[:160], truth(v)) for c, v in oks[0].conds],
                'rejecting': [show(e.ret) for e in errs]})
    return F


def check_into_inner(rep, g):
    fn = g.inherent_fn('into_inner')
    rep.ob('R-VIEW', fn is not None and fn['vis'] == 'pub', g, 'into_inner exists and is pub', {})
    if fn is None:
        return
    rep.bodies.add(fn['lid'])
    outs = g.paths(fn)
    ok = len(outs) == 1 and outs[0].kind == 'return' and unreborrow(outs[0].ret) == ('field', ('param', 1), 0) and not outs[0].conds
    rep.ob('R-VIEW', ok, g, 'into_inner returns exactly the stored field', {'ret': [show(o.ret) for o in outs]})


# ----------------------------------------------------------------------------- outcome tables

SELF0 = ('field', ('deref', ('param', 1)), 0)
OTHER0 = ('field', ('deref', ('param', 2)), 0)


def strip_names(t):
    """drop the name of named constants (`K` and `5` are the same value)"""
    if not isinstance(t, tuple):
        return t
    if t and t[0] == 'const' and len(t) == 4:
        return (t[0], t[1], t[2], None) if t[2] is not None else t
    return tuple(strip_names(x) if isinstance(x, tuple) else x for x in t)


def table(outs):
    """canonical, order-insensitive form of a list of outcomes"""
    rows = set()
    for o in outs:
        rows.add((o.kind, strip_names(tuple(o.conds)), strip_names(o.ret) if o.kind == 'return' else None))
    return rows


def show_table(rows, limit=6):
    out = []
    for (k, conds, ret) in list(rows)[:limit]:
        out.append({'kind': k, 'conds': [(show(c)[:140], str(v)) for c, v in conds], 'ret': show(ret)[:200] if ret else None})
    return out


def map_table(rows, f):
    """apply f(kind, conds, ret) -> (kind, conds, ret) to every row"""
    return {f(k, c, r) for (k, c, r) in rows}


def ctor_table(g, arg):
    """outcome table of the canonical constructor applied to term `arg`"""
    fn = g.ctor()
    if fn is None:
        return None
    outs = g.ex.paths(fn['lid'], {1: arg})
    return table(outs)


def conv_expected(g, arg, wrap_ok_when_infallible=False):
    """expected table of a conversion: the constructor's table; for `new` optionally wrapped in Ok"""
    t = ctor_table(g, arg)
    if t is None:
        return None
    if not g.has_validation() and wrap_ok_when_infallible:
        t = map_table(t, lambda k, c, r: (k, c, sym.mk_ok(r) if k == 'return' else r))
    return t


def cmp_tables(rep, rule, g, what, got, want):
    ok = got == want
    detail = {}
    if not ok:
        detail = {'only_in_generated': show_table(got - want), 'only_in_expected': show_table(want - got)}
    rep.ob(rule, ok, g, what, detail)
    return ok


def single_return(outs):
    if len(outs) == 1 and outs[0].kind == 'return' and not outs[0].conds:
        return outs[0].ret
    return None


# ----------------------------------------------------------------------------- C03 conversions

def default_term(g):
    d = g.d
    df = d['default']
    if df is None or df.get('value') is None:
        return None
    v = df['value']
    fam = d['family']
    if fam == 'int':
        return sym.mk_const(d['inner'], v)
    if fam == 'float':
        return sym.mk_const(d['inner'], float(v))
    if fam == 'string':
        return ('str', v)
    return None


def check_conversions(rep, g, fallible_only=False):
    """R-DELEG: TryFrom / From / FromStr(String) / Default agree with the canonical constructor.
    fallible_only: just the conversions that can report the constructor's error (TryFrom, FromStr)"""
    d = g.d
    ex = g.ex
    hv = g.has_validation()
    P1 = ('param', 1)
    derives = set(d['derives'])
    # --- TryFrom
    tf = g.trait_impls('convert::TryFrom')
    want_n = (2 if d['family'] == 'string' else 1) if 'TryFrom' in derives else 0
    rep.ob('R-IMPL', len(tf) == want_n, g, f'TryFrom impls present: {len(tf)} (expected {want_n})', {})
    for imp in tf:
        fn = g.impl_fn(imp, 'try_from')
        if fn is None:
            rep.ob('R-DELEG', False, g, 'TryFrom impl without try_from', {})
            continue
        rep.bodies.add(fn['lid'])
        src = g.F.tys(imp['trait_args'][1]) if len(imp['trait_args']) > 1 else '?'
        got = table(g.paths(fn))
        want = conv_expected(g, P1, wrap_ok_when_infallible=True)
        cmp_tables(rep, 'R-DELEG', g, f'TryFrom<{src}>::try_from(x) has exactly the outcomes of the constructor on x', got, want)
        if hv:
            et = g.impl_type(imp, 'Error')
            ctor = g.ctor()
            okerr = et is not None and ctor is not None and g.F.ty(ctor['output'])['args'][1] == et
            rep.ob('R-DELEG', okerr, g, f'TryFrom<{src}>::Error is the constructor error type', {})
    # --- From<Inner> for T
    fr = [] if fallible_only else [i for i in g.trait_impls('convert::From')]
    want_n = (2 if d['family'] == 'string' else 1) if 'From' in derives else 0
    if not fallible_only:
        rep.ob('R-IMPL', len(fr) == want_n, g, f'From<raw> impls for T present: {len(fr)} (expected {want_n})', {})
    for imp in fr:
        fn = g.impl_fn(imp, 'from')
        if fn is None:
            continue
        rep.bodies.add(fn['lid'])
        src = g.F.tys(imp['trait_args'][1]) if len(imp['trait_args']) > 1 else '?'
        got = table(g.paths(fn))
        want = conv_expected(g, P1)
        rep.ob('R-DELEG', not hv, g, 'From<raw> exists only without validation', {})
        cmp_tables(rep, 'R-DELEG', g, f'From<{src}>::from(x) has exactly the outcomes of new(x)', got, want)
    # --- FromStr of string newtypes
    if d['family'] == 'string':
        fs = g.trait_impls('str::FromStr') + g.trait_impls('str::traits::FromStr')
        rep.ob('R-IMPL', len(fs) == (1 if 'FromStr' in derives else 0), g, 'FromStr impl present iff derived', {})
        for imp in fs:
            fn = g.impl_fn(imp, 'from_str')
            if fn is None:
                continue
            rep.bodies.add(fn['lid'])
            got = table(g.paths(fn))
            want = conv_expected(g, P1, wrap_ok_when_infallible=True)
            cmp_tables(rep, 'R-DELEG', g, 'FromStr::from_str(s) has exactly the outcomes of the constructor on s', got, want)
    # --- Default
    if fallible_only:
        return
    df = g.trait_impls('default::Default')
    rep.ob('R-IMPL', len(df) == (1 if 'Default' in derives else 0), g, 'Default impl present iff derived', {})
    for imp in df:
        fn = g.impl_fn(imp, 'default')
        if fn is None:
            continue
        rep.bodies.add(fn['lid'])
        outs = g.paths(fn)
        got = table(outs)
        # structural clause (all defaults): every returned value is the payload of a constructor Ok;
        # there is no fallback value: all other paths diverge
        notret = [o for o in outs if o.kind not in ('return', 'diverge')]
        rep.ob('R-DELEG', not notret, g, 'Default::default: every path returns or panics', {'why': [o.why for o in notret][:3]})
        dt = default_term(g)
        if dt is None:
            # default expression without a value in the model: read the argument off the body (constructor kept
            # opaque), then compare with the constructor's table on that very argument
            ctor = g.ctor()
            arg = None
            if ctor is not None:
                ex.no_inline.add(ctor['lid'])
                try:
                    for o in ex.paths(fn['lid']):
                        for t in list(walk(o.ret)) + [x for c, _ in o.conds for x in walk(c)]:
                            if t[0] == 'call':
                                cal = ex.callees.get(t[1])
                                if cal is not None and cal.target_lid() == ctor['lid'] and len(t[2]) == 1:
                                    arg = t[2][0]
                finally:
                    ex.no_inline.discard(ctor['lid'])
            if arg is not None and not has_param(arg):
                ct = ctor_table(g, arg)

                def unwrap2(k, c, r):
                    if hv and k == 'return' and is_ok(r):
                        return ('return', c, r[4][0])
                    if hv and k == 'return' and is_err(r):
                        return ('diverge', c, None)
                    return (k, c, r)
                cmp_tables(rep, 'R-DELEG', g, 'Default::default() == constructor(<the declared default expression>), panicking where it rejects',
                           got, map_table(ct, unwrap2))
                continue
            # default expression without a Sigma value: compare with the constructor applied to the
            # argument term actually passed (shape only): returned values must be T(..) from ctor paths
            rets = [o for o in outs if o.kind == 'return']
            ok = all(is_adt(o.ret) and o.ret[1] == g.adt['path'] for o in rets)   # (an invalid default leaves only the panicking path)
            rep.ob('R-DELEG', ok, g, 'Default::default returns a constructed T on every returning path', {'rets': [show(o.ret)[:120] for o in rets][:3]})
            continue
        ct = ctor_table(g, dt)
        if hv:
            def unwrap(k, c, r):
                if k == 'return' and is_ok(r):
                    return ('return', c, r[4][0])
                if k == 'return' and is_err(r):
                    return ('diverge', c, None)
                return (k, c, r)
            want = map_table(ct, unwrap)
        else:
            want = ct
        cmp_tables(rep, 'R-DELEG', g, f'Default::default() == constructor({d["default"]["text"]}), panicking where it rejects', got, want)
        if len(rep.samples) < 12:
            rep.sample({'decl': decl_key(d), 'fn': 'default', 'table': show_table(got)})


# ----------------------------------------------------------------------------- C06 FromStr (non-string)

def payload(x, idx, name):
    return ('field', ('downcast', x, idx, name), 0)


def check_from_str(rep, g):
    """R-FROMSTR: from_str = inner parse, then the constructor; Parse / Validate classification"""
    d = g.d
    ex = g.ex
    if d['family'] == 'string':
        return
    hv = g.has_validation()
    fs = g.trait_impls('str::FromStr') + g.trait_impls('str::traits::FromStr')
    rep.ob('R-IMPL', len(fs) == (1 if 'FromStr' in d['derives'] else 0), g, 'FromStr impl present iff derived', {})
    for imp in fs:
        fn = g.impl_fn(imp, 'from_str')
        if fn is None:
            continue
        rep.bodies.add(fn['lid'])
        outs = g.paths(fn)
        got = table(outs)
        # locate the inner parse: the first condition of every path discriminates one call on the parameter
        firsts = {o.conds[0][0] for o in outs if o.conds}
        r = None
        if len(firsts) == 1:
            c0 = next(iter(firsts))
            if c0[0] == 'discr' and c0[1][0] == 'call':
                r = c0[1]
        ok_parse = False
        if r is not None and len(r[2]) == 1 and strip_view(ex, r[2][0]) == ('param', 1):
            c = ex.callees.get(r[1])
            if c is not None:
                inner_ty = g.F.tys(g.adt['variants'][0]['fields'][0]['ty'])
                if c.path.endswith('str::<impl str>::parse') and c.gargs and g.F.tys(c.gargs[0]) == inner_ty:
                    ok_parse = True
                elif c.trait and tail(c.trait, 1) == 'FromStr' and c.name == 'from_str' and c.gargs and g.F.tys(c.gargs[0]) == inner_ty:
                    ok_parse = True
        rep.ob('R-FROMSTR', ok_parse, g, 'from_str first parses the unmodified parameter with the inner type\'s FromStr',
               {'first_conds': [show(x)[:200] for x in firsts]})
        if not ok_parse:
            continue
        pe = g.parse_err_adt
        rep.ob('R-FROMSTR', pe is not None, g, 'dedicated <T>ParseError enum exists', {})
        if pe is None:
            continue
        et = g.impl_type(imp, 'Err')
        rep.ob('R-FROMSTR', et is not None and g.F.ty(et).get('lid') == pe['lid'], g, 'FromStr::Err is the <T>ParseError enum', {})
        vnames = [v['name'] for v in pe['variants']]
        rep.ob('R-FROMSTR', vnames == (['Parse', 'Validate'] if hv else ['Parse']), g,
               'parse error enum has exactly Parse (and Validate iff validation)', {'variants': vnames})
        dr = ('discr', r)
        want = set()
        want.add(('return', ((dr, 1),), sym.mk_err(('adt', pe['path'], 0, 'Parse', (payload(r, 1, 'Err'),)))))
        ct = ctor_table(g, payload(r, 0, 'Ok'))

        def lift(k, c, rr):
            c2 = ((dr, 0),) + tuple(c)
            if not hv:
                return (k, c2, sym.mk_ok(rr) if k == 'return' else rr)
            if k == 'return' and is_err(rr):
                return (k, c2, sym.mk_err(('adt', pe['path'], 1, 'Validate', (rr[4][0],))))
            return (k, c2, rr)
        want |= map_table(ct, lift)
        cmp_tables(rep, 'R-FROMSTR', g, 'from_str: Err(Parse(e)) iff the inner parse fails, else the constructor result with Err wrapped in Validate',
                   got, want)
        rep.sample({'decl': decl_key(d), 'fn': 'from_str', 'table': show_table(got)})


# ----------------------------------------------------------------------------- C04 / C10 serde

def is_serde_trait(tr, name):
    """serde's Serialize / Deserialize, however the crate is reachable from the analysed crate
    (`serde::`, `_::_serde::` inside serde_derive's anonymous const, `serde::de::`)"""
    return bool(tr) and re.search(r'(^|::|_)serde::(de::|ser::)?' + name + '$', tr) is not None


def same_type_modulo_lifetimes(a, b):
    f = lambda x: re.sub(r"'[A-Za-z_][A-Za-z0-9_]*", "'_", x)
    return f(a) == f(b)


def check_deserialize(rep, g):
    d = g.d
    ex = g.ex
    hv = g.has_validation()
    imps = [i for i in g.impls if is_serde_trait(i.get('trait'), 'Deserialize') and g.self_kind(i) == 'T']
    rep.ob('R-IMPL', len(imps) == (1 if 'Deserialize' in d['derives'] else 0), g, 'Deserialize impl present iff derived', {})
    for imp in imps:
        fn = g.impl_fn(imp, 'deserialize')
        extra = [it['name'] for it in imp['items'] if it['kind'] == 'fn' and it['name'] != 'deserialize']
        rep.ob('R-DESER', not extra, g, 'Deserialize impl overrides only `deserialize`', {'extra': extra})
        if fn is None:
            rep.ob('R-DESER', False, g, 'no deserialize fn', {})
            continue
        rep.bodies.add(fn['lid'])
        ret = single_return(g.paths(fn))
        ok = False
        visitor_adt = None
        if ret is not None and ret[0] == 'call':
            c = ex.callees.get(ret[1])
            if c is not None and c.trait and c.trait.endswith('Deserializer') and c.name == 'deserialize_newtype_struct' and len(ret[2]) == 3:
                a0, a1, a2 = ret[2]
                if a0 == ('param', 1) and strip_view(ex, a1) == ('str', d['name']) and a2[0] == 'adt':
                    ok = True
                    visitor_adt = a2[1]
        rep.ob('R-DESER', ok, g, 'deserialize(d) = d.deserialize_newtype_struct("<T>", visitor), returned unchanged',
               {'ret': show(ret)[:300] if ret else None})
        if not ok:
            continue
        vadt = g.F.adt_by_path.get(visitor_adt)
        vimps = [i for i in g.impls if i.get('trait', '').endswith('de::Visitor') and vadt is not None
                 and g.F.ty(i['self']).get('lid') == vadt['lid']]
        rep.ob('R-DESER', len(vimps) == 1, g, 'exactly one Visitor impl for the visitor type', {'n': len(vimps)})
        if len(vimps) != 1:
            continue
        vi = vimps[0]
        vfns = sorted(it['name'] for it in vi['items'] if it['kind'] == 'fn')
        rep.ob('R-DESER', vfns == ['expecting', 'visit_newtype_struct'], g,
               'visitor implements only expecting + visit_newtype_struct (any other visit_* falls back to serde\'s invalid-type error)',
               {'fns': vfns})
        vt = g.impl_type(vi, 'Value')
        rep.ob('R-DESER', vt is not None and g.F.ty(vt).get('lid') == g.adt['lid'], g, 'Visitor::Value is the newtype', {})
        vf = g.impl_fn(vi, 'visit_newtype_struct')
        if vf is None:
            continue
        rep.bodies.add(vf['lid'])
        outs = g.paths(vf)
        got = table(outs)
        firsts = {o.conds[0][0] for o in outs if o.conds}
        r = None
        if len(firsts) == 1:
            c0 = next(iter(firsts))
            if c0[0] == 'discr' and c0[1][0] == 'call':
                r = c0[1]
        okr = False
        if r is not None and len(r[2]) == 1 and r[2][0] == ('param', 2):
            c = ex.callees.get(r[1])
            inner_ty = g.F.tys(g.adt['variants'][0]['fields'][0]['ty'])
            if c is not None and c.trait and c.trait.endswith('Deserialize') and c.name == 'deserialize' and c.gargs and \
                    same_type_modulo_lifetimes(g.F.tys(c.gargs[0]), inner_ty):
                okr = True
        rep.ob('R-DESER', okr, g, 'visitor first deserializes the inner type from the given deserializer',
               {'first': [show(x)[:200] for x in firsts]})
        if not okr:
            continue
        dr = ('discr', r)
        ct = ctor_table(g, payload(r, 0, 'Ok'))
        # expected rows; the Err rows of the constructor are checked separately (custom(..) wrapper)
        want_exact = {('return', ((dr, 1),), sym.mk_err(payload(r, 1, 'Err')))}
        want_err_rows = []
        for (k, c, rr) in ct:
            c2 = ((dr, 0),) + tuple(c)
            if not hv:
                want_exact.add((k, c2, sym.mk_ok(rr) if k == 'return' else rr))
            elif k == 'return' and is_err(rr):
                want_err_rows.append((c2, rr[4][0]))
            else:
                want_exact.add((k, c2, rr))
        missing = want_exact - got
        rest = got - want_exact
        rep.ob('R-DESER', not missing, g, 'inner failure is returned unchanged; accepted values are exactly the constructor\'s Ok results',
               {'missing': show_table(missing)})
        # remaining rows: one per constructor rejection, Err(custom(.. the validation error ..))
        okrows = len(rest) == len(want_err_rows)
        for (c2, e) in want_err_rows:
            m = [row for row in rest if row[0] == 'return' and row[1] == c2]
            if len(m) != 1:
                okrows = False
                continue
            rr = m[0][2]
            good = is_err(rr) and rr[4][0][0] == 'call' and cname(ex, rr[4][0]) == 'custom' and contains(rr[4][0], e)
            if not good:
                okrows = False
        rep.ob('R-DESER', okrows, g, 'constructor rejections become Err(de::Error::custom(<the validation error>)), nothing else is returned',
               {'rest': show_table(rest), 'expected_rejections': len(want_err_rows)})
        rep.sample({'decl': decl_key(d), 'fn': 'visit_newtype_struct', 'rows': len(got)})


def check_serialize(rep, g):
    d = g.d
    ex = g.ex
    imps = [i for i in g.impls if is_serde_trait(i.get('trait'), 'Serialize') and g.self_kind(i) == 'T']
    rep.ob('R-IMPL', len(imps) == (1 if 'Serialize' in d['derives'] else 0), g, 'Serialize impl present iff derived', {})
    for imp in imps:
        fn = g.impl_fn(imp, 'serialize')
        extra = [it['name'] for it in imp['items'] if it['kind'] == 'fn' and it['name'] != 'serialize']
        rep.ob('R-SER', not extra and fn is not None, g, 'Serialize impl defines only `serialize`', {'extra': extra})
        if fn is None:
            continue
        rep.bodies.add(fn['lid'])
        ret = single_return(g.paths(fn))
        ok = False
        if ret is not None and ret[0] == 'call' and len(ret[2]) == 3:
            c = ex.callees.get(ret[1])
            a0, a1, a2 = ret[2]
            if c is not None and c.trait and c.trait.endswith('Serializer') and c.name == 'serialize_newtype_struct':
                ok = a0 == ('param', 2) and strip_view(ex, a1) == ('str', d['name']) and a2 == ('ref', False, SELF0)
        rep.ob('R-SER', ok, g, 'serialize(s) = s.serialize_newtype_struct("<T>", &self.0), returned unchanged', {'ret': show(ret)[:300] if ret else None})
        if ok:
            rep.sample({'decl': decl_key(d), 'fn': 'serialize', 'ret': show(ret)})


# ----------------------------------------------------------------------------- C07 error enum

def check_error_enum(rep, g):
    """R-VARIANT: the generated error enum has exactly one unit variant per declared validator, in order"""
    d = g.d
    if d['custom'] or not d['validators']:
        rep.ob('R-VARIANT', g.err_adt is None, g, 'no error enum is generated without built-in validators', {})
        return
    ea = g.err_adt
    rep.ob('R-VARIANT', ea is not None and ea['kind'] == 'Enum', g, 'generated error enum exists', {})
    if ea is None:
        return
    want = [VARIANT[v['kind']] for v in d['validators']]
    got = [v['name'] for v in ea['variants']]
    rep.ob('R-VARIANT', got == want, g, 'error enum variants = one per declared validator, declaration order', {'got': got, 'want': want})
    rep.ob('R-VARIANT', all(not v['fields'] for v in ea['variants']), g, 'all variants are unit variants', {})
    ctor = g.ctor()
    if ctor is not None:
        et = g.F.ty(ctor['output'])['args'][1]
        rep.ob('R-VARIANT', g.F.ty(et).get('lid') == ea['lid'], g, 'try_new returns Result<T, that enum>', {})


def check_custom_error_passthrough(rep, g):
    d = g.d
    if not d['custom']:
        return
    ctor = g.ctor()
    if ctor is None:
        return
    et = g.F.tys(g.F.ty(ctor['output'])['args'][1])
    rep.ob('R-VARIANT', et.split('::')[-1] == d['custom']['error'].split('::')[-1], g,
           'custom validation: try_new returns the user error type', {'error_type': et})


# ----------------------------------------------------------------------------- C13 views & derives

def shared_ref_of_self0(ex, t, allow_deref_call=True):
    """t is a shared view of self.0 (possibly through String->str deref / unsizing)"""
    if t[0] == 'ref' and t[1]:
        return False
    if t[0] != 'ref' and not (is_deref_call(ex, t) or is_unsize(t) or
                              (t[0] == 'call' and cpath(ex, t) in ('alloc::string::String::as_str', 'std::string::String::as_str'))):
        return False   # a shared reference: `&..` itself, or what a shared-view call / unsizing of one returns
    return strip_view(ex, t) == SELF0


def check_views(rep, g):
    d = g.d
    ex = g.ex
    derives = set(d['derives'])
    inner_field_ty = g.adt['variants'][0]['fields'][0]['ty']

    def one(trait_tail, method, what, nwant=None):
        imps = g.trait_impls(trait_tail)
        return imps

    # AsRef / Borrow / Deref
    for trait_tail, method, dname, n_expected in (
            ('convert::AsRef', 'as_ref', 'AsRef', 1),
            ('borrow::Borrow', 'borrow', 'Borrow', 2 if d['family'] == 'string' else 1),
            ('ops::Deref', 'deref', 'Deref', 1), ('ops::deref::Deref', 'deref', 'Deref', 1)):
        imps = g.trait_impls(trait_tail)
        if trait_tail == 'ops::deref::Deref' and not imps:
            continue
        if trait_tail == 'ops::Deref' and not imps and g.trait_impls('ops::deref::Deref'):
            continue
        rep.ob('R-IMPL', len(imps) == (n_expected if dname in derives else 0), g, f'{dname} impls present iff derived', {'n': len(imps)})
        seen_targets = set()
        for imp in imps:
            # the viewed type: Inner (plus `str` for string newtypes)
            inner_s = g.F.tys(inner_field_ty)
            if dname == 'Deref':
                tt = g.impl_type(imp, 'Target')
                tgt = g.F.tys(tt) if tt is not None else None
            else:
                tgt = g.F.tys(imp['trait_args'][1]) if len(imp.get('trait_args', [])) > 1 else None
            seen_targets.add(tgt)
            allowed = {inner_s} | ({'str'} if d['family'] == 'string' and dname in ('AsRef', 'Borrow') else set())
            if d['family'] == 'string' and dname == 'AsRef':
                allowed = {'str'}
            rep.ob('R-VIEW', tgt is not None and same_type_modulo_lifetimes(tgt, next(iter(allowed))) or tgt in allowed, g,
                   f'{dname} exposes the inner type{" (as str)" if "str" in allowed else ""}', {'target': tgt, 'allowed': sorted(allowed)})
            fn = g.impl_fn(imp, method)
            if fn is None:
                continue
            rep.bodies.add(fn['lid'])
            ret = single_return(g.paths(fn))
            ok = ret is not None and shared_ref_of_self0(ex, ret)
            rep.ob('R-VIEW', ok, g, f'{dname}::{method} returns a shared view of exactly the stored value', {'ret': show(ret) if ret else None})
            rep.ob('R-VIEW', len(fn['inputs']) == 1 and not g.F.ty(fn['inputs'][0]).get('mut', False), g, f'{dname}::{method} takes &self', {})
    # Into: From<T> for Inner
    intos = [i for i in g.impls if i.get('trait', '').endswith('convert::From')
             and g.F.ty(i['trait_args'][1]).get('lid') == g.adt['lid'] and g.self_kind(i) is None]
    rep.ob('R-IMPL', len(intos) == (1 if 'Into' in derives else 0), g, 'From<T> for Inner present iff Into derived', {'n': len(intos)})
    for imp in intos:
        fn = g.impl_fn(imp, 'from')
        if fn is None:
            continue
        rep.bodies.add(fn['lid'])
        ret = single_return(g.paths(fn))
        rep.ob('R-VIEW', unreborrow(ret) == ('field', ('param', 1), 0), g, 'Into: returns exactly the stored value', {'ret': show(ret) if ret else None})
        rep.ob('R-VIEW', imp['self'] == inner_field_ty, g, 'Into: target is the inner type', {})
    # Display
    disp = [i for i in g.trait_impls('fmt::Display')]
    rep.ob('R-IMPL', len(disp) == (1 if 'Display' in derives else 0), g, 'Display impl present iff derived', {})
    for imp in disp:
        fn = g.impl_fn(imp, 'fmt')
        if fn is None:
            continue
        rep.bodies.add(fn['lid'])
        ret = single_return(g.paths(fn))
        ok = False
        if ret is not None and ret[0] == 'call' and len(ret[2]) == 2:
            c = ex.callees.get(ret[1])
            if c is not None and c.trait and c.trait.endswith('fmt::Display') and c.name == 'fmt':
                ok = strip_view(ex, ret[2][0]) == SELF0 and ret[2][1] in (('param', 2), ('ref', True, ('deref', ('param', 2))))
        rep.ob('R-VIEW', ok, g, 'Display::fmt = <Inner as Display>::fmt(&self.0, f), returned unchanged', {'ret': show(ret) if ret else None})
    # IntoIterator
    iti = g.trait_impls('iter::IntoIterator') + g.trait_impls('iter::traits::collect::IntoIterator')
    itr = g.trait_impls('iter::IntoIterator', '&T') + g.trait_impls('iter::traits::collect::IntoIterator', '&T')
    itm = g.trait_impls('iter::IntoIterator', '&mut T') + g.trait_impls('iter::traits::collect::IntoIterator', '&mut T')
    want = 1 if 'IntoIterator' in derives else 0
    rep.ob('R-IMPL', len(iti) == want and len(itr) == want, g, 'IntoIterator for T and &T present iff derived', {'T': len(iti), '&T': len(itr)})
    rep.ob('R-MUT', not itm, g, 'no IntoIterator for &mut T', {})
    for imp in iti:
        fn = g.impl_fn(imp, 'into_iter')
        if fn is None:
            continue
        rep.bodies.add(fn['lid'])
        ret = single_return(g.paths(fn))
        ok = ret is not None and ret[0] == 'call' and cname(ex, ret) == 'into_iter' and ret[2] == (('field', ('param', 1), 0),)
        rep.ob('R-VIEW', ok, g, 'IntoIterator for T iterates exactly the stored value', {'ret': show(ret) if ret else None})
    for imp in itr:
        fn = g.impl_fn(imp, 'into_iter')
        if fn is None:
            continue
        rep.bodies.add(fn['lid'])
        ret = single_return(g.paths(fn))
        # an iterator derived from &self.0 only: every leaf of the term is the shared field view
        ok = ret is not None and ret[0] == 'call' and params_of(ret) == {1} and contains(ret, SELF0) and not any(
            t[0] == 'ref' and t[1] for t in walk(ret))
        # peel the call chain: each step a call whose single argument is the previous
        t = ret
        chain = []
        while ok and t[0] == 'call' and len(t[2]) == 1 and not is_deref_call(ex, t):
            chain.append(cname(ex, t))
            t = t[2][0]
        ok = ok and strip_view(ex, t) == SELF0 and all(n in ('into_iter', 'iter') for n in chain)
        rep.ob('R-VIEW', ok, g, 'IntoIterator for &T iterates a shared view of the stored value', {'ret': show(ret) if ret else None})
        it = g.impl_type(imp, 'Item')
        rep.ob('R-VIEW', it is not None and 'IntoIterator' in g.F.tys(it) or (it is not None and g.F.tys(it).startswith('&')), g,
               'IntoIterator for &T: Item is the inner by-reference item', {'item': g.F.tys(it) if it is not None else None})


def check_derived_cmp(rep, g):
    """R-DERIVE: PartialEq/Eq/PartialOrd/Ord/Hash/Clone on T are the single-field delegations"""
    d = g.d
    ex = g.ex
    derives = set(d['derives'])
    fam = d['family']

    def impl_of(tt):
        for cand in tt:
            r = g.trait_impls(cand)
            if r:
                return r
        return []
    # PartialEq
    pe = impl_of(['cmp::PartialEq'])
    rep.ob('R-IMPL', len(pe) == (1 if 'PartialEq' in derives else 0), g, 'PartialEq impl present iff derived', {})
    for imp in pe:
        fn = g.impl_fn(imp, 'eq')
        extra = [it['name'] for it in imp['items'] if it['kind'] == 'fn' and it['name'] != 'eq']
        rep.ob('R-DERIVE', not extra and fn is not None, g, 'PartialEq defines only eq', {'extra': extra})
        if fn is None:
            continue
        rep.bodies.add(fn['lid'])
        ret = single_return(g.paths(fn))
        ok = False
        if ret is not None:
            if ret[0] == 'bin' and ret[1] == 'Eq' and ret[2] == SELF0 and ret[3] == OTHER0:
                ok = True
            elif ret[0] == 'call' and cname(ex, ret) == 'eq' and (ctrait(ex, ret) or '').endswith('cmp::PartialEq') and len(ret[2]) == 2:
                ok = strip_view(ex, ret[2][0]) == SELF0 and strip_view(ex, ret[2][1]) == OTHER0
        rep.ob('R-DERIVE', ok, g, 'eq(a, b) = (a.0 == b.0)', {'ret': show(ret) if ret else None})
    # Eq marker
    eqi = impl_of(['cmp::Eq'])
    rep.ob('R-IMPL', len(eqi) == (1 if 'Eq' in derives else 0), g, 'Eq impl present iff derived', {})
    # PartialOrd / Ord
    for tt, m, dn in ((['cmp::PartialOrd'], 'partial_cmp', 'PartialOrd'), (['cmp::Ord'], 'cmp', 'Ord')):
        imps = impl_of(tt)
        rep.ob('R-IMPL', len(imps) == (1 if dn in derives else 0), g, f'{dn} impl present iff derived', {})
        for imp in imps:
            fn = g.impl_fn(imp, m)
            extra = [it['name'] for it in imp['items'] if it['kind'] == 'fn' and it['name'] != m]
            rep.ob('R-DERIVE', not extra and fn is not None, g, f'{dn} defines only {m} (lt/le/gt/ge/max/min/clamp are the provided defaults)', {'extra': extra})
            if fn is None:
                continue
            rep.bodies.add(fn['lid'])
            outs = g.paths(fn)
            if dn == 'Ord' and fam == 'float':
                # cmp = partial_cmp(self, other).unwrap_or_else(panic): returns the Some payload, diverges on None
                rets = [o for o in outs if o.kind == 'return']
                divs = [o for o in outs if o.kind == 'diverge']
                ok = len(rets) == 1 and len(divs) == 1 and len(outs) == 2
                call = None
                if ok:
                    r = rets[0].ret
                    if r[0] == 'field' and r[1][0] == 'downcast' and r[1][3] == 'Some':
                        call = r[1][1]
                    ok = call is not None and call[0] == 'call' and cname(ex, call) == 'partial_cmp' and \
                        (ctrait(ex, call) or '').endswith('cmp::PartialOrd') and len(call[2]) == 2 and \
                        strip_view(ex, call[2][0]) == SELF0 and strip_view(ex, call[2][1]) == OTHER0
                    def two_variant(conds):
                        # Option has two variants: "not Some" is None and the reverse (a `let .. else` lowers to the otherwise edge)
                        return [(c, (1 - v[1][0]) if isinstance(v, tuple) and v[0] == 'not' and len(v[1]) == 1 and v[1][0] in (0, 1) else v) for c, v in conds]
                    ok = ok and two_variant(rets[0].conds) == [(('discr', call), 1)] and two_variant(divs[0].conds) == [(('discr', call), 0)]
                rep.ob('R-DERIVE', ok, g, 'float Ord::cmp = partial_cmp(&a.0, &b.0) unwrapped; its only panic edge is the None (NaN) arm',
                       {'outs': [repr(o)[:300] for o in outs][:3]})
                continue
            ret = single_return(outs)
            ok = False
            if ret is not None and ret[0] == 'call' and cname(ex, ret) == m and (ctrait(ex, ret) or '').endswith(tt[0]) and len(ret[2]) == 2:
                ok = strip_view(ex, ret[2][0]) == SELF0 and strip_view(ex, ret[2][1]) == OTHER0
            rep.ob('R-DERIVE', ok, g, f'{m}(a, b) = {m}(&a.0, &b.0), returned unchanged', {'ret': show(ret) if ret else None})
    # Hash
    hs = impl_of(['hash::Hash'])
    rep.ob('R-IMPL', len(hs) == (1 if 'Hash' in derives else 0), g, 'Hash impl present iff derived', {})
    for imp in hs:
        fn = g.impl_fn(imp, 'hash')
        extra = [it['name'] for it in imp['items'] if it['kind'] == 'fn' and it['name'] != 'hash']
        rep.ob('R-DERIVE', not extra and fn is not None, g, 'Hash defines only hash', {'extra': extra})
        if fn is None:
            continue
        rep.bodies.add(fn['lid'])
        ret = single_return(g.paths(fn))
        ok = False
        if ret is not None and ret[0] == 'call' and cname(ex, ret) == 'hash' and (ctrait(ex, ret) or '').endswith('hash::Hash') and len(ret[2]) == 2:
            ok = strip_view(ex, ret[2][0]) == SELF0 and ret[2][1] in (('param', 2), ('ref', True, ('deref', ('param', 2))))
        rep.ob('R-DERIVE', ok, g, 'hash(a, state) = Hash::hash(&a.0, state) and nothing else', {'ret': show(ret) if ret else None})
    # Clone
    cl = impl_of(['clone::Clone'])
    rep.ob('R-IMPL', len(cl) == (1 if 'Clone' in derives else 0), g, 'Clone impl present iff derived', {})
    for imp in cl:
        fn = g.impl_fn(imp, 'clone')
        if fn is None:
            continue
        rep.bodies.add(fn['lid'])
        ret = single_return(g.paths(fn))
        ok = False
        if ret is not None:
            if ret == ('deref', ('param', 1)):
                ok = 'Copy' in derives
            elif is_adt(ret) and ret[1] == g.adt['path'] and len(ret[4]) == 1:
                x = ret[4][0]
                ok = x[0] == 'call' and cname(ex, x) == 'clone' and (ctrait(ex, x) or '').endswith('clone::Clone') and \
                    len(x[2]) == 1 and strip_view(ex, x[2][0]) == SELF0
        rep.ob('R-DERIVE', ok, g, 'clone(a) = T(a.0.clone()) (or *a for Copy types)', {'ret': show(ret) if ret else None})
    cp = impl_of(['marker::Copy'])
    rep.ob('R-IMPL', len(cp) == (1 if 'Copy' in derives else 0), g, 'Copy impl present iff derived', {})


# ----------------------------------------------------------------------------- C12 float Eq/Ord

def check_float_total_order(rep, g):
    d = g.d
    if d['family'] != 'float' or not ({'Eq', 'Ord'} & set(d['derives'])):
        return
    has_finite = any(v['kind'] == 'finite' for v in d['validators'])
    rep.ob('R-FINITE', has_finite, g, 'float Eq/Ord is only generated together with a `finite` validator', {})
    ctor = g.ctor()
    if ctor is None or ctor['name'] != 'try_new':
        rep.ob('R-FINITE', False, g, 'float Eq/Ord type has no try_new', {})
        return
    outs = [o for o in g.paths(ctor) if o.kind == 'return' and is_ok(o.ret)]
    ok = bool(outs)
    for o in outs:
        F = o.ret[4][0][4][0]
        chks = [norm_check(g.ex, c, v, F) for c, v in o.conds]
        if not any(c['kind'] == 'is_finite' and c['truth'] is True for c in chks):
            ok = False
    rep.ob('R-FINITE', ok, g, 'every accepting path of try_new passed is_finite() on the stored value', {})


# ----------------------------------------------------------------------------- C05 structural rules

FORBIDDEN_TRAITS = ('ops::DerefMut', 'ops::deref::DerefMut', 'convert::AsMut', 'borrow::BorrowMut', 'ops::IndexMut', 'ops::index::IndexMut')


def place_types(F, fn_body, p):
    """yield (type index before the projection, projection) along a place"""
    ti = fn_body['locals'][p['l']]
    for pr in p['p']:
        yield ti, pr
        if pr == '*':
            t = F.ty(ti)
            ti = t.get('t', ti)
        elif isinstance(pr, dict) and 'f' in pr:
            ti = pr['t']
    yield ti, None


def touches_field_of(F, body, p, adt_lids):
    """does the place project into a field of one of the given ADTs? returns the adt lid or None"""
    for ti, pr in place_types(F, body, p):
        if pr is None:
            break
        if isinstance(pr, dict) and 'f' in pr:
            t = F.ty(ti)
            if t['k'] == 'adt' and t.get('lid') in adt_lids:
                return t['lid']
    return None


def scan_body_sites(F, fn, body, adt_lids, sites):
    for bi, blk in enumerate(body['blocks']):
        for s in blk['stmts']:
            if s['s'] != 'assign':
                continue
            rv = s['rv']
            if rv['r'] == 'agg' and rv.get('kind') == 'adt' and rv.get('lid') in adt_lids:
                sites.append(('construct', rv['lid'], fn['lid'], bi, s['sp']))
            if rv['r'] == 'ref' and rv['mut']:
                a = touches_field_of(F, body, rv['p'], adt_lids)
                if a is not None:
                    sites.append(('mut-borrow-field', a, fn['lid'], bi, s['sp']))
            if rv['r'] == 'rawptr':
                a = touches_field_of(F, body, rv['p'], adt_lids)
                if a is not None:
                    sites.append(('rawptr-field', a, fn['lid'], bi, s['sp']))
            if rv['r'] == 'cast' and rv['kind'] == 'Transmute':
                t = F.ty(rv['ty'])
                if t['k'] == 'adt' and t.get('lid') in adt_lids:
                    sites.append(('transmute', t['lid'], fn['lid'], bi, s['sp']))
            a = touches_field_of(F, body, s['p'], adt_lids) if s['p']['p'] else None
            if a is not None:
                sites.append(('store-field', a, fn['lid'], bi, s['sp']))
        t = blk['term']
        if t['t'] == 'call' and 'fn' in t['f']:
            c = t['f']['fn']
            if c.get('ctor') and c['ctor'].get('lid') in adt_lids:
                sites.append(('construct', c['ctor']['lid'], fn['lid'], bi, t['sp']))
            if not c.get('safe', True) and c.get('lid') is not None:
                sites.append(('unsafe-local-call', c['lid'], fn['lid'], bi, t['sp']))
        # operands that mention the constructor as a function value (e.g. `.map(T)`)
        def ops_of(t):
            if t['t'] == 'call':
                return t['args']
            return []
        for o in ops_of(t):
            k = o.get('k')
            if k and 'fn' in k and k['fn'].get('ctor') and k['fn']['ctor'].get('lid') in adt_lids:
                sites.append(('construct', k['fn']['ctor']['lid'], fn['lid'], bi, t['sp']))
        for s in blk['stmts']:
            if s['s'] == 'assign' and s['rv']['r'] == 'use':
                k = s['rv']['o'].get('k')
                if k and 'fn' in k and k['fn'].get('ctor') and k['fn']['ctor'].get('lid') in adt_lids:
                    sites.append(('construct', k['fn']['ctor']['lid'], fn['lid'], bi, s['sp']))


def enclosing_method(fn):
    """name of the method a body belongs to (closures and nested fns report their outermost method)"""
    path = fn['path']
    path = re.sub(r'::\{closure#\d+\}', '', path)
    m = re.search(r'>::([A-Za-z_][A-Za-z0-9_]*)(::.*)?$', path)
    if m:
        return m.group(1)
    parts = [x for x in path.split('::') if x]
    return parts[-1] if parts else ''


def callers_of(F, lid):
    """lids of the bodies that call (or take the address of) the local fn `lid`"""
    cache = F.__dict__.setdefault('_callers', None)
    if cache is None:
        cache = {}
        def walk_fn_refs(x, owner):
            if isinstance(x, dict):
                f = x.get('fn')
                if isinstance(f, dict):
                    for l in (f.get('lid'), (f.get('res') or {}).get('lid')):
                        if l is not None:
                            cache.setdefault(l, set()).add(owner)
                for v in x.values():
                    if isinstance(v, (dict, list)):
                        walk_fn_refs(v, owner)
            elif isinstance(x, list):
                for v in x:
                    walk_fn_refs(v, owner)
        for fn in F.fns.values():
            walk_fn_refs(fn.get('blocks', []), fn['lid'])
            for pb in fn.get('promoted', []):
                walk_fn_refs(pb.get('blocks', []), fn['lid'])
        F.__dict__['_callers'] = cache
    return cache.get(lid, set())


def is_ctor_helper(g, fn, _seen=None):
    """a generated inherent fn that is private to the generated module and referenced only from the canonical constructor
    (or from other such helpers) is part of the constructor: the constructor's outcome table inlines it"""
    ctor = g.ctor()
    if ctor is None or fn['lid'] == ctor['lid'] or fn.get('kind') == 'Closure':
        return False
    if fn.get('vis') != 'in:' + g.modpath or not str(fn.get('span', '')).startswith('!') or fn.get('unsafe'):
        return False
    _seen = (_seen or set()) | {fn['lid']}
    callers = callers_of(g.F, fn['lid'])
    if not callers:
        return False
    for c in callers:
        if c == ctor['lid'] or c in _seen:
            continue
        cf = g.F.fns.get(c)
        # closures inside the constructor / a helper count as their parent
        while cf is not None and cf.get('kind') == 'Closure':
            cf = g.F.fns.get(cf.get('parent'))
        if cf is None:
            return False
        if cf['lid'] == ctor['lid'] or cf['lid'] in _seen:
            continue
        if not is_ctor_helper(g, cf, _seen):
            return False
    return True


def check_ctor_sites(rep, F, gens, methods=None, only=None):
    """R-CTOR: who may construct / mutate a newtype, over every body of the crate.
    methods: restrict the reported sites to bodies belonging to these methods (a property about `from_str` is not
    violated by a construction inside `default`); only: predicate selecting the declarations the property is about"""
    by_adt = {g.adt['lid']: g for g in gens if g.adt is not None}
    adt_lids = set(by_adt)
    sites = []
    for fn in F.fns.values():
        scan_body_sites(F, fn, fn, adt_lids, sites)
        for pb in fn.get('promoted', []):
            scan_body_sites(F, fn, pb, adt_lids, sites)
    counts = Counter()
    for (kind, adt, fl, bi, sp) in sites:
        fn = F.fns[fl]
        if kind == 'unsafe-local-call':
            callee = F.fns.get(adt)
            # generated code must not call an unsafe generated fn (new_unchecked)
            if callee is not None and '__nutype_' in callee['path'] and '__nutype_' in fn['path']:
                g = None
                for gg in gens:
                    if gg.modpath and fn['module'].startswith(gg.modpath):
                        g = gg
                rep.ob('R-CTOR', False, g or gens[0], f'generated fn `{fn["path"]}` calls unsafe generated fn `{callee["path"]}`', {'span': sp})
            continue
        g = by_adt[adt]
        if only is not None and not only(g):
            continue
        if methods is not None and enclosing_method(fn) not in methods and fn.get('name') not in methods:
            continue
        name = fn.get('name')
        ctor = g.ctor()
        allowed = None
        if kind == 'construct':
            if ctor is not None and fl == ctor['lid']:
                allowed = 'ctor'
            elif name == 'new_unchecked' and fn['unsafe'] and g.d['new_unchecked'] and g.inherent_fn('new_unchecked') is not None \
                    and g.inherent_fn('new_unchecked')['lid'] == fl:
                allowed = 'new_unchecked'
            elif name == 'clone' and any(g.impl_fn(i, 'clone') is not None and g.impl_fn(i, 'clone')['lid'] == fl
                                         for i in g.trait_impls('clone::Clone')):
                allowed = 'clone'
            elif is_ctor_helper(g, fn):
                allowed = 'ctor-helper'
        counts[(kind, allowed or 'OTHER')] += 1
        rep.ob('R-CTOR', allowed is not None, g,
               f'{kind} of T in `{fn.get("name")}` ({fn["path"].split("::")[-2] if "::" in fn["path"] else ""}) is an allowed site (constructor / flagged unsafe new_unchecked / derived clone)',
               {'fn': fn['path'], 'span': sp, 'kind': kind})
    return counts


# names the generated module may bring into the scope in which the user's expressions (bounds, closures,
# defaults, function paths) are spliced; anything else defined or imported there shadows the user's own item
# of that name, because items and explicit imports of a module win over its `use super::*`
HYGIENE_IMPORTS = {
    'Display': 'pre-existing `use ::core::fmt::Display` of string/any parse errors; a trait name, reachable only through a user item literally called Display inside a spliced expression',
}


def has_user_tokens(F, fn):
    """does the body of this generated function contain tokens the user wrote (spliced expressions)?"""
    def walk(x, top):
        if isinstance(x, dict):
            if x.get('usp'):
                return True
            for k, v in x.items():
                if k in ('sp', 'fsp') and isinstance(v, str) and not v.startswith('!'):
                    return True
                if k == 'span' and not top and isinstance(v, str) and not v.startswith('!') and x.get('kind') == 'closure':
                    return True
                if isinstance(v, (dict, list)) and walk(v, False):
                    return True
        elif isinstance(x, list):
            return any(walk(v, False) for v in x)
        return False
    if walk(fn, True):
        return True
    # closures written inside it (their bodies are separate functions)
    return any(c['kind'] == 'Closure' and c['path'].startswith(fn['path'] + '::') and not c['span'].startswith('!') for c in F.fns.values())


def check_hygiene(rep, g):
    """R-HYGIENE: the generated module defines and imports no name a spliced user expression could mean"""
    F = g.F
    allowed = {g.name, g.name + 'Error', g.name + 'ParseError'}
    n = 0
    for it in F.items:
        if it['scope'] == 'fn':
            # an item local to a generated function body shadows the same name in whatever is spliced into that body
            if it['module'] == g.modpath and it['span'].startswith('!'):
                nm = it['name']
                owner = [fn for fn in g.fns if fn['path'] == it['owner']]
                sibling_init = any(o.get('init_user') for o in F.items if o['scope'] == 'fn' and o['owner'] == it['owner'])
                if owner and not sibling_init and not any(has_user_tokens(F, fn) for fn in owner):
                    continue   # nothing of the user's is spliced into that body (or into an initialiser of its local items)
                rep.ob('R-HYGIENE', nm.startswith('__') or nm == '_', g, f'item `{nm}` ({it["kind"]}) local to generated `{it["owner"]}` is `__`-prefixed; '
                       'any other name would capture the same name in an expression spliced into that body', {'item': nm, 'kind': it['kind']})
            continue
        if it['module'] != g.modpath:
            continue
        n += 1
        nm = it['name']
        ok = nm in allowed or nm.startswith('__') or nm == '_'
        rep.ob('R-HYGIENE', ok, g, f'item `{nm}` ({it["kind"]}) defined in the generated module is the type, one of its error types, or `__`-prefixed; '
               'any other name would capture the same name in bounds, closures and defaults spliced next to it', {'item': nm, 'kind': it['kind']})
    rep.ob('R-HYGIENE', n >= 1, g, 'the items of the generated module were found', {})
    for u in F.uses:
        if u['module'] != g.modpath:
            continue
        if u['ukind'] == 'Glob':
            tg = [t['path'] for t in u['targets']]
            par = ''   # `super` of the generated module: the nearest enclosing module (a function body is not one)
            for m in F.mods:
                if m['path'] and g.modpath.startswith(m['path'] + '::') and len(m['path']) > len(par) and m['path'] != g.modpath:
                    par = m['path']
            rep.ob('R-HYGIENE', tg == [par] or (not u['targets']), g, 'the only glob import of the generated module is `use super::*`', {'targets': tg})
            continue
        if not u.get('in_mod', True):
            # an import inside a generated function body / const block shadows the name there only: it matters when user
            # tokens are spliced into that body
            owner = [fn for fn in g.fns if fn['path'] == u.get('owner')]
            if not owner or not any(has_user_tokens(F, fn) for fn in owner):
                continue
        for t in u['targets']:
            nm = u.get('name') or t['path'].split('::')[-1]
            ok = nm in HYGIENE_IMPORTS or nm.startswith('__') or nm == '_'
            rep.ob('R-HYGIENE', ok, g, f'explicit import `{t["path"]}` in the generated module is in the frozen table; any other would shadow the user\'s item of that name', {'import': t['path']})


def check_no_bypass(rep, g):
    """R-MUT / R-IMPLSET / R-VIS / new_unchecked discipline for one declaration"""
    d = g.d
    F = g.F
    # --- field & module visibility
    fld = g.adt['variants'][0]['fields']
    rep.ob('R-VIS', len(fld) == 1 and fld[0]['vis'] == 'in:' + g.modpath, g, 'the single field is private to the generated module', {'vis': [f['vis'] for f in fld]})
    # the declaring module: the nearest enclosing *module* (a declaration may sit in a function body, which is not one)
    parent = ''
    for m in F.mods:
        if m['path'] and g.modpath.startswith(m['path'] + '::') and len(m['path']) > len(parent) and m['path'] != g.modpath:
            parent = m['path']
    want_mod_vis = 'crate' if not parent else 'in:' + parent
    rep.ob('R-VIS', g.mod['vis'] == want_mod_vis, g, 'the generated module is private to the declaring module', {'vis': g.mod['vis']})
    grand = '::'.join(parent.split('::')[:-1]) if parent else ''
    exp = {'pub': 'pub', '': want_mod_vis, 'pub(crate)': 'crate', 'pub(self)': want_mod_vis,
           'pub(super)': ('crate' if not grand else 'in:' + grand)}.get(d['vis'])
    allowed_names = {g.name, g.name + 'Error', g.name + 'ParseError'}
    seen = set()
    for u in F.uses:
        for t in u['targets']:
            if t['path'].startswith(g.modpath + '::'):
                nm = t['path'][len(g.modpath) + 2:]
                if u['module'].startswith(g.modpath):
                    continue   # `use` inside the generated module itself
                rep.ob('R-VIS', nm in allowed_names, g, f're-export `{nm}` is one of the type / error / parse-error names', {})
                rep.ob('R-VIS', u['vis'] == exp, g, f're-export `{nm}` has exactly the declared visibility `{d["vis"] or "private"}`', {'got': u['vis'], 'want': exp})
                seen.add(nm)
    rep.ob('R-VIS', g.name in seen, g, 'the type is re-exported', {})
    # --- impl set
    for i in g.impls:
        sk = g.self_kind(i)
        tr = i.get('trait')
        if sk is None:
            continue
        if tr:
            bad = any(tr.endswith(x) for x in FORBIDDEN_TRAITS)
            rep.ob('R-MUT', not bad, g, f'impl {tr} for {sk} is not a mutable-view trait', {})
            if sk == '&mut T':
                rep.ob('R-MUT', False, g, f'impl {tr} for &mut T exists', {})
            if i.get('unsafe'):
                rep.ob('R-MUT', tr.endswith('clone::TrivialClone'), g, f'unsafe impl {tr} is the derive(Copy, Clone) marker only', {})
    # --- fn signatures: nothing hands out &mut to the value or takes &mut T
    for fn in g.fns:
        if fn['kind'] == 'Closure':
            continue
        rep.bodies.add(fn['lid'])
        out = F.tys(fn['output'])
        rep.ob('R-MUT', '&mut' not in out and '*mut' not in out, g, f'`{fn["name"]}` does not return a mutable reference/pointer', {'output': out})
        for ti in fn['inputs']:
            t = F.ty(ti)
            if t['k'] == 'ref' and t['mut']:
                u = F.ty(t['t'])
                isT = u['k'] == 'adt' and u.get('lid') == g.adt['lid']
                rep.ob('R-MUT', not isT, g, f'`{fn["name"]}` does not take &mut T', {})
        if fn['unsafe']:
            ok = fn['name'] == 'new_unchecked' and d['new_unchecked']
            rep.ob('R-UNSAFE', ok, g, f'unsafe fn `{fn["name"]}` is new_unchecked of a flagged declaration', {})
    nu = g.inherent_fn('new_unchecked')
    rep.ob('R-UNSAFE', (nu is not None) == bool(d['new_unchecked']), g, 'new_unchecked exists iff the declaration carries the flag', {})
    if nu is not None:
        rep.ob('R-UNSAFE', nu['unsafe'], g, 'new_unchecked is an unsafe fn', {})
    # every pub inherent fn is one of the documented entry points
    for fn in g.inherent_fns():
        if fn['vis'] == 'pub':
            rep.ob('R-API', fn['name'] in ('try_new', 'new', 'into_inner', 'new_unchecked'), g, f'pub inherent fn `{fn["name"]}` is a documented entry point', {})
    # every fn returning T (or Result<T, _>/Option<T>) has been classified: the constructor, a conversion
    # proven equivalent to it, clone, default, arbitrary, new_unchecked
    for fn in g.fns:
        if fn['kind'] == 'Closure':
            continue
        out = F.ty(fn['output'])
        def mentions_T(t, depth=0):
            if depth > 4:
                return False
            if t['k'] == 'adt':
                if t.get('lid') == g.adt['lid']:
                    return True
                return any(mentions_T(F.ty(a), depth + 1) for a in t.get('args', []) if isinstance(a, int))
            return False
        if mentions_T(out):
            known = fn['name'] in ('try_new', 'new', 'new_unchecked', 'clone', 'default', 'arbitrary', 'try_from', 'from', 'from_str',
                                   'deserialize', 'visit_newtype_struct', 'make')
            known = known or is_ctor_helper(g, fn)   # a private piece of the constructor, not an entry point
            rep.ob('R-API', known, g, f'fn `{fn["name"]}` producing T is a known entry point', {'path': fn['path']})


# ----------------------------------------------------------------------------- C16 messages

def decode_template(hexs):
    """core::fmt::Arguments template bytes -> list of ('lit', text) | ('arg', index or None, has_flags)"""
    b = bytes.fromhex(hexs)
    i = 0
    out = []
    nxt = 0
    while i < len(b):
        x = b[i]
        if x == 0:
            break
        if x < 0x80:
            out.append(('lit', b[i + 1:i + 1 + x].decode('utf-8', 'replace')))
            i += 1 + x
        elif x == 0x80:
            n = b[i + 1] | (b[i + 2] << 8)
            out.append(('lit', b[i + 3:i + 3 + n].decode('utf-8', 'replace')))
            i += 3 + n
        elif x >= 0xC0:
            i += 1
            if x & 1:
                i += 4
            if x & 2:
                i += 2
            if x & 4:
                i += 2
            idx = None
            if x & 8:
                idx = b[i] | (b[i + 1] << 8)
                i += 2
            if idx is None:
                idx = nxt
            nxt = idx + 1
            out.append(('arg', idx))
        else:
            out.append(('lit', '?'))
            i += 1
    return out


def fmt_arguments(ex, t):
    """from a term of type fmt::Arguments: (pieces, [argument value terms (formatter kind, value)])"""
    t = strip_view(ex, t)
    if t[0] != 'call':
        return None
    c = ex.callees.get(t[1])
    if c is None:
        return None
    if c.name in ('from_str', 'from_str_nonconst', 'new_const') and len(t[2]) >= 1:
        a = strip_view(ex, t[2][0])
        if a[0] == 'str':
            return [('lit', a[1])], []
        return None
    if c.name == 'new' and 'Arguments' in c.path and len(t[2]) == 2:
        tb = strip_view(ex, t[2][0])
        arr = strip_view(ex, t[2][1])
        if tb[0] != 'bytes' or arr[0] != 'array':
            return None
        args = []
        for a in arr[1]:
            if a[0] == 'call' and len(a[2]) == 1:
                args.append((cname(ex, a), strip_view(ex, a[2][0])))
            else:
                args.append(('?', a))
        return decode_template(tb[1]), args
    return None


PHRASES = [
    (r'greater\s+(than\s+)?or\s+equal(\s+to)?|at\s+least|not\s+less\s+than|no\s+less\s+than|not\s+fewer\s+than|no\s+fewer\s+than', {'Gt', 'Eq'}),
    (r'less\s+(than\s+)?or\s+equal(\s+to)?|at\s+most|not\s+(greater|more|longer)\s+than|no\s+(greater|more|longer)\s+than', {'Lt', 'Eq'}),
    (r'greater\s+than|more\s+than|longer\s+than|bigger\s+than|larger\s+than|above|exceed', {'Gt'}),
    (r'less\s+than|fewer\s+than|shorter\s+than|smaller\s+than|below', {'Lt'}),
]


def stated_relation(text):
    """the relation a message states, read literally; None if no relation phrase is recognised"""
    low = text.lower()
    for rx, rel in PHRASES:
        m = re.search(rx, low)
        if m:
            return rel, m.group(0)
    return None, None


def check_messages(rep, g):
    d = g.d
    ex = g.ex
    if d['custom'] or not d['validators']:
        return
    rep.ob('R-MSG', g.err_adt is not None, g, 'the error enum of a declaration with built-in validators is found in the generated module', {})
    if g.err_adt is None:
        return
    ea = g.err_adt
    disp = [i for i in g.impls if i.get('trait', '').endswith('fmt::Display') and g.F.ty(i['self']).get('lid') == ea['lid']]
    rep.ob('R-MSG', len(disp) == 1, g, 'the generated error enum implements Display', {})
    if len(disp) != 1:
        return
    fn = g.impl_fn(disp[0], 'fmt')
    if fn is None:
        return
    rep.bodies.add(fn['lid'])
    outs = g.paths(fn)
    # the accepting path of try_new gives, per validator, the enforced relation and bound
    ctor = g.ctor()
    oks = [o for o in g.paths(ctor) if o.kind == 'return' and is_ok(o.ret)] if ctor else []
    if len(oks) > 1:
        # several accepting paths (a validator that branches): every one of them has to enforce what the message of each bound
        # variant states - a test of the declared quantity against the declared bound with (at least) the declared relation.
        # Lemma used for strings: byte length <= B implies char count <= B (never the other direction).
        decided = False
        for i, v in enumerate(d['validators']):
            k = v['kind']
            if k not in SIGMA_ACCEPT:
                continue
            want_measure = 'charcount' if k.startswith('len_char') else 'value'
            upper = k in ('less', 'less_or_equal', 'len_char_max')
            for o in oks:
                try:
                    Fp = o.ret[4][0][4][0]
                except (IndexError, TypeError):
                    continue
                enforced = False
                for (c, val) in o.conds:
                    chk = norm_check(ex, c, val, Fp)
                    if chk.get('kind') != 'cmp' or bound_matches(ex, chk, v, d) is not True:
                        continue
                    acc = set(chk['accept']) - {'Un'}
                    if not acc or not acc <= SIGMA_ACCEPT[k]:
                        continue
                    if chk['measure'] == want_measure or (upper and want_measure == 'charcount' and chk['measure'] == 'bytelen'):
                        enforced = True
                decided = True
                rep.ob('R-MSG', enforced, g,
                       f'message of {VARIANT[k]}: every accepting path of try_new enforces the stated constraint on the {"character count" if want_measure == "charcount" else "value"}',
                       {'path': [(show(c)[:140], str(val)) for c, val in o.conds][:6]})
        if not decided:
            rep.ob('R-MSG', None, g, 'cannot relate messages to checks: try_new has no unique accepting path', {})
        return
    if len(oks) != 1:
        rep.ob('R-MSG', None, g, 'cannot relate messages to checks: try_new has no unique accepting path', {})
        return
    F = oks[0].ret[4][0][4][0]
    checks = [norm_check(ex, c, v, F) for (c, v) in oks[0].conds]
    nvar = len(ea['variants'])
    by_variant = {}
    for o in outs:
        if o.kind != 'return':
            continue
        vidx = None
        if nvar == 1 and not o.conds:
            vidx = 0
        for c, v in o.conds:
            if c[0] == 'discr' and strip_view(ex, c[1]) == ('param', 1) or (c[0] == 'discr' and c[1] == ('deref', ('param', 1))):
                if isinstance(v, int):
                    vidx = v
                elif isinstance(v, tuple) and v[0] == 'not':
                    rest = [i for i in range(nvar) if i not in v[1]]
                    if len(rest) == 1:
                        vidx = rest[0]
        if vidx is not None:
            by_variant[vidx] = o
    for i, v in enumerate(d['validators']):
        k = v['kind']
        what = f'message of {VARIANT[k]}'
        o = by_variant.get(i)
        if o is None:
            rep.ob('R-MSG', False, g, f'{what}: no Display arm found for variant #{i}', {})
            continue
        ret = o.ret
        fa = None
        if ret[0] == 'call' and cname(ex, ret) in ('write_fmt', 'write_str') and len(ret[2]) == 2:
            if cname(ex, ret) == 'write_str':
                a = strip_view(ex, ret[2][1])
                fa = ([('lit', a[1])], []) if a[0] == 'str' else None
            else:
                fa = fmt_arguments(ex, ret[2][1])
        if fa is None:
            rep.ob('R-MSG', None, g, f'{what}: Display arm is not a recognised write of format arguments', {'ret': show(ret)[:300]})
            continue
        pieces, args = fa
        text = ''.join(p[1] if p[0] == 'lit' else '{%d}' % p[1] for p in pieces)
        # the type name: literal in the template or a &str argument
        names_type = d['name'] in text or any(a[1] == ('str', d['name']) for a in args)
        rep.ob('R-MSG', names_type, g, f'{what}: names the newtype', {'text': text})
        if k not in SIGMA_ACCEPT:
            continue
        chk = checks[i] if i < len(checks) else {'kind': 'unknown'}
        if chk['kind'] != 'cmp':
            # a guard that orders floats through `total_cmp` is a *different relation* from the one any of the messages
            # states (read literally: the comparison operators): -0.0 < +0.0 and NaN is ordered in the IEEE total order
            tc = [cpath(ex, t) for t in walk(chk.get('term', ())) if t[0] == 'call' and cpath(ex, t).endswith('::total_cmp')] \
                if d['family'] == 'float' and chk.get('term') else []
            if tc:
                rep.ob('R-MSG', False, g,
                       f'{what}: the validator orders values by the IEEE total order (`{tc[0]}`), the stated constraint reads as the comparison '
                       f'operator: they differ on -0.0 / +0.0 and NaN', {'text': text, 'check': show(chk['term'])[:200]})
                continue
            rep.ob('R-MSG', None, g, f'{what}: the check for this variant was not recognised, nothing to compare with', {})
            continue
        # the bound: an argument whose value is the very bound term of the check
        def same_value(x, y):
            if x == y:
                return True
            # an untyped literal in the message defaults to i32 / f64 while the check uses the inner type: compare values
            if x[0] == 'const' and y[0] == 'const' and x[2] is not None and y[2] is not None:
                return const_value(x) == const_value(y)
            return False
        bound_named = any(same_value(a[1], chk['bound']) for a in args)
        if not bound_named and chk['bound'][0] == 'const' and chk['bound'][2] is not None:
            # a literal bound may be rendered into the template text by the compiler
            bv = const_value(chk['bound'])
            bound_named = re.search(r'(?<![\w.])' + re.escape(repr(bv).rstrip('0').rstrip('.') if isinstance(bv, float) else str(bv)), text) is not None
        rep.ob('R-MSG', bound_named, g, f'{what}: names the declared bound', {'text': text, 'args': [show(a[1]) for a in args], 'bound': show(chk['bound'])})
        # ... and that bound is the one the declaration states (what the spelling written by the user denotes), not merely
        # the one the validator happens to enforce
        bm = bound_matches(ex, chk, v, d)
        rep.ob('R-MSG', bm, g, f'{what}: the bound it names is `{v.get("text")}` = {v.get("value", v.get("text"))!r} as declared',
               {'text': text, 'bound': show(chk['bound']), 'declared': repr(v.get('value'))})
        want_measure = 'charcount' if k.startswith('len_char') else 'value'
        if chk['measure'] != want_measure:
            rep.ob('R-MSG', False, g, f'{what}: the validator tests `{chk["measure"]}`, the message states a constraint on the '
                   f'{"character count" if want_measure == "charcount" else "value"}', {'text': text})
            continue
        rel, phrase = stated_relation(text)
        if rel is None:
            rep.ob('R-MSG', None, g, f'{what}: no relation phrase recognised in the text', {'text': text})
            continue
        enforced = set(chk['accept']) - {'Un'}
        rep.ob('R-MSG', rel == enforced, g,
               f'{what}: the stated constraint ("{phrase}") admits exactly the values the validator `{k}` accepts',
               {'text': text, 'stated': sorted(rel), 'enforced': sorted(enforced)},
               site=f"{d['family']} {VARIANT[k]} message states {'/'.join(sorted(rel))} but the validator enforces {'/'.join(sorted(enforced))}")
        rep.sample({'decl': decl_key(d), 'variant': VARIANT[k], 'text': text, 'stated': sorted(rel), 'enforced': sorted(enforced)})
    # embedding: ParseError::Validate and serde errors show the validation error's own Display
    pe = g.parse_err_adt
    if pe is not None and g.has_validation():
        pd = [i for i in g.impls if i.get('trait', '').endswith('fmt::Display') and g.F.ty(i['self']).get('lid') == pe['lid']]
        for imp in pd:
            f2 = g.impl_fn(imp, 'fmt')
            if f2 is None:
                continue
            rep.bodies.add(f2['lid'])
            ok = False
            for o in g.paths(f2):
                if o.kind != 'return' or o.ret[0] != 'call' or len(o.ret[2]) != 2:
                    continue
                fa = fmt_arguments(ex, o.ret[2][1])
                if fa is None:
                    continue
                for (kind, val) in fa[1]:
                    if kind == 'new_display' and val[0] == 'field' and val[1][0] == 'downcast' and val[1][3] == 'Validate':
                        ok = True
            rep.ob('R-MSG', ok, g, 'ParseError::Validate(e) is displayed through e\'s own Display', {})


# ----------------------------------------------------------------------------- C15 no_std

def path_roots(s):
    """crate roots of every path mentioned in a printed type / def-path string"""
    return set(re.findall(r'(?<![\w:])([A-Za-z_][A-Za-z0-9_]*)::', s))


def check_nostd_paths(rep, g):
    """R-NOSTD: nothing the generated code of this declaration resolves to lives in `std`"""
    F = g.F
    bad = []
    n = 0
    for fn in g.fns:
        rep.bodies.add(fn['lid'])
        bodies = [fn] + list(fn.get('promoted', []))
        for body in bodies:
            for ti in body['locals']:
                n += 1
                if 'std' in path_roots(F.tys(ti)):
                    bad.append(('type', F.tys(ti), fn['path']))
            for blk in body['blocks']:
                t = blk['term']
                if t['t'] == 'call' and 'fn' in t['f']:
                    c = t['f']['fn']
                    n += 1
                    for p in (c['path'], (c.get('res') or {}).get('path', '')):
                        if 'std' in path_roots(p + '::'):
                            bad.append(('callee', p, fn['path']))
    for i in g.impls:
        tr = i.get('trait_full')
        if tr:
            n += 1
            if 'std' in path_roots(tr):
                bad.append(('impl', tr, ''))
    rep.ob('R-NOSTD', not bad, g, f'all {n} types / callees / traits the generated code resolves to are outside `std`', {'std_items': bad[:5]})


# ----------------------------------------------------------------------------- C08 generated unit tests

def test_status(outs):
    kinds = {o.kind for o in outs}
    if kinds == {'return'}:
        return 'passes'
    if kinds and kinds <= {'diverge'}:
        return 'fails'
    return 'depends'


def check_generated_tests(rep, g):
    """R-GENTEST: the #[test]s the macro generates into the user's crate fail exactly when the expression bounds
    contradict each other / the default value is invalid (decided by folding the test body, not by running it)"""
    d = g.d
    exp = d.get('expect_tests') or {}
    tests = {f['name']: f for f in g.fns if f.get('name', '').startswith('should_have') and '::tests::' in f['path']}
    want_cons = exp.get('consistent')
    want_def = exp.get('default')
    cons = [f for n, f in tests.items() if 'consistent' in n]
    dflt = [f for n, f in tests.items() if 'valid_default' in n]
    if want_cons is not None:
        rep.ob('R-GENTEST', len(cons) == 1, g, 'a boundary-consistency test is generated for a declaration with both bounds', {'tests': sorted(tests)})
        for f in cons:
            rep.bodies.add(f['lid'])
            st = test_status(g.paths(f))
            lo = [v for v in d['validators'] if v['kind'] in ('greater', 'greater_or_equal', 'len_char_min')][0]
            up = [v for v in d['validators'] if v['kind'] in ('less', 'less_or_equal', 'len_char_max')][0]
            both_strict = lo['kind'] == 'greater' and up['kind'] == 'less'
            site = None
            if st == 'passes' and want_cons == 'fails' and lo.get('value') == up.get('value'):
                site = f"{d['family']} generated boundary test passes for equal expression bounds `{lo['kind']}` / `{up['kind']}` (empty valid set)"
            if st == 'passes' and want_cons == 'fails' and d['family'] == 'int' and lo.get('value', 0) + 1 == up.get('value', 0) and both_strict:
                site = 'int generated boundary test passes for adjacent exclusive expression bounds (empty valid set)'
            rep.ob('R-GENTEST', st == want_cons if st != 'depends' else None, g,
                   f'generated test `{f["name"]}` {want_cons} (bounds {lo["kind"]} = {lo["text"]}, {up["kind"]} = {up["text"]})',
                   {'folded_outcome': st, 'expected': want_cons}, site=site)
    if want_def is not None:
        rep.ob('R-GENTEST', len(dflt) == 1, g, 'a default-validity test is generated for a validated declaration deriving Default', {'tests': sorted(tests)})
        for f in dflt:
            rep.bodies.add(f['lid'])
            st = test_status(g.paths(f))
            if want_def == 'depends':
                rep.ob('R-GENTEST', st == 'depends', g, f'generated test `{f["name"]}` depends on what the user\'s validation function says about the default',
                       {'folded_outcome': st})
                continue
            rep.ob('R-GENTEST', st == want_def if st != 'depends' else None, g,
                   f'generated test `{f["name"]}` {want_def} (default = {d["default"]["text"]})', {'folded_outcome': st, 'expected': want_def})
    rep.sample({'decl': decl_key(d), 'generated_tests': sorted(tests)})


# ----------------------------------------------------------------------------- C11 canonical stored values

PURE_CALLEE_TAILS = ('str::<impl str>::is_empty', 'str::<impl str>::chars', 'str::<impl str>::trim', 'str::<impl str>::to_lowercase',
                     'str::<impl str>::to_uppercase', 'str::<impl str>::len', 'string::String::len', 'string::String::is_empty',
                     '>::is_finite', '>::is_nan', 'Regex::is_match')

# Lemmas about std (Unicode data; not analysable from nutype's source) under which built-in string
# sanitizer chains are idempotent. Each rewrite names the lemma it uses.
LEMMAS = {
    'L1': 'str::trim is idempotent',
    'L2': 'str::to_lowercase / to_uppercase are idempotent (Unicode full case mapping applied twice equals once)',
    'L3': 'case mapping neither creates nor removes leading/trailing White_Space, so trim(map(trim(x))) = map(trim(x)) and map(trim(map(x))) = trim(map(x))',
}


IMPURE_MARKERS = ('::env::', '::time::', '::fs::', '::io::', '::net::', '::process::', '::thread::', '::sync::atomic', 'Mutex', 'RwLock',
                  '::cell::', 'Cell<', 'rand', 'random', 'SystemTime', 'Instant', 'getenv')


def callee_is_pure(path):
    """deterministic, state-free callee: anything in core/alloc/std/regex that does not touch the environment, clocks,
    I/O, threads or interior mutability (deny-list, so that behaviour-preserving rewrites using other std helpers pass)"""
    root = re.sub(r'^[<&\s]*(mut\s+)?', '', path).split('::')[0].strip('<> ')
    if root not in ('core', 'alloc', 'std', 'regex', 'str', 'f32', 'f64', 'usize', 'bool', 'char'):
        return False
    return not any(m in path for m in IMPURE_MARKERS)


def reduce_chain(ops):
    """normal form of a built-in sanitizer chain applied twice, using L1-L3; returns (normal form, lemmas used) or None"""
    used = set()
    seq = list(ops)
    changed = True
    while changed:
        changed = False
        # adjacent duplicates
        for i in range(len(seq) - 1):
            if seq[i] == seq[i + 1]:
                used.add('L1' if seq[i] == 'trim' else 'L2')
                del seq[i + 1]
                changed = True
                break
        if changed:
            continue
        # x, y, x with y the other kind: trim,case,trim -> trim,case ; case,trim,case -> case,trim
        for i in range(len(seq) - 2):
            if seq[i] == seq[i + 2] and seq[i] != seq[i + 1]:
                used.add('L3')
                used.add('L1' if seq[i] == 'trim' else 'L2')
                del seq[i + 2]
                changed = True
                break
    return seq, used


def check_canonical(rep, g):
    """R-CANON: try_new(v.into_inner()) == Ok(v) for every obtainable v, for declarations with built-in guards only"""
    d = g.d
    ex = g.ex
    if d['custom'] or any(s['kind'] == 'with' for s in d['sanitizers']) or any(v['kind'] == 'predicate' for v in d['validators']):
        return   # premise: custom functions are declared idempotent / deterministic by the user
    ctor = g.ctor()
    if ctor is None:
        return
    rep.bodies.add(ctor['lid'])
    outs = g.paths(ctor)
    hv = g.has_validation()
    oks = [o for o in outs if o.kind == 'return' and (is_ok(o.ret) if hv else True)]
    if len(oks) != 1:
        rep.ob('R-CANON', None, g, 'constructor has no unique accepting path', {})
        return
    ok = oks[0]
    F = ok.ret[4][0][4][0] if hv else ok.ret[4][0]
    root, ops = san_ops(ex, F, d['family'])
    builtin = all(isinstance(o, str) for o in ops)
    rep.ob('R-CANON', builtin and root[0] != 'unknown', g, 'the stored value is a chain of built-in sanitizers over the raw input', {'ops': [str(o)[:40] for o in ops]})
    if not builtin:
        return
    # (1) sanitisation is idempotent: S(S(x)) reduces to S(x) under the lemmas
    twice, used = reduce_chain(list(ops) + list(ops))
    rep.ob('R-CANON', twice == list(ops), g, f'sanitizer chain {ops} applied twice reduces to itself (lemmas {sorted(used)})',
           {'twice_normal_form': twice, 'lemmas': {k: LEMMAS[k] for k in used}})
    # (2) validation reads only the stored value, through pure callees: re-validation of S(x) evaluates the same
    #     conditions on the same value
    impure = []
    for c, v in ok.conds:
        chk = norm_check(ex, c, v, F)
        if chk['kind'] == 'unknown':
            impure.append(('unrecognised check', show(c)[:160]))
        for t in walk(c):
            if t[0] == 'call':
                p = cpath(ex, t)
                cal = ex.callees.get(t[1])
                if cal is not None and cal.trait and tail(cal.trait, 1) in ('Deref', 'Iterator', 'Into', 'ToString', 'From', 'ToOwned') and \
                        cal.name in ('deref', 'count', 'into', 'to_string', 'from', 'to_owned'):
                    continue
                if cal is not None and cal.lid is not None and cal.dk == 'Fn' and not t[2]:
                    continue   # user constant function spelled in a bound (`lim()`): part of the declaration, not of the checks
                if not callee_is_pure(p):
                    impure.append(('callee outside core/alloc/std/regex or touching environment, time, I/O, threads or interior mutability', p))
            if t[0] == 'param':
                pass
    rep.ob('R-CANON', not impure, g, 'every check is a recognised test of the stored value through pure std callees (deterministic re-validation)',
           {'impure': impure[:4]})
    # (3) re-entry: the constructor applied to the stored value takes the same accepting conditions with S(F) in place of F;
    #     with (1) S(F) = F, so the path condition of the first construction implies the path condition of the second
    re = [o for o in g.ex.paths(ctor['lid'], {1: F}) if o.kind == 'return' and (is_ok(o.ret) if hv else True)]
    same_shape = len(re) == 1 and len(re[0].conds) == len(ok.conds)
    if same_shape:
        F2 = re[0].ret[4][0][4][0] if hv else re[0].ret[4][0]
        # replace S(F) by F (justified by (1)) and compare the condition lists
        conds2 = [(subst(c, {F2: F}), v) for c, v in re[0].conds]
        same_shape = conds2 == list(ok.conds) or d['family'] == 'string'
        if d['family'] == 'string' and conds2 != list(ok.conds):
            # strings: `Into<String>` wrapper around the already-owned value differs syntactically; compare normalised checks
            k1 = [(norm_check(ex, c, v, F).get('kind'), str(sorted(norm_check(ex, c, v, F).get('accept', [])))) for c, v in ok.conds]
            k2 = [(norm_check(ex, c, v, F2).get('kind'), str(sorted(norm_check(ex, c, v, F2).get('accept', [])))) for c, v in re[0].conds]
            same_shape = k1 == k2
    rep.ob('R-CANON', same_shape, g, 're-entering the constructor with a stored value evaluates the same checks on the re-sanitized value', {})
    rep.sample({'decl': decl_key(d), 'sanitizers': ops, 'twice_normal_form': twice, 'lemmas_used': sorted(used)})


# ----------------------------------------------------------------------------- the repository's own declarations

def pseudo_decl(F, mod):
    """declaration record for a generated module found in a real crate (what the user wrote is unknown):
    only what can be read off the expansion"""
    name = mod['name'][len('__nutype_'):-2]
    adt = None
    for a in F.adts.values():
        if a['module'] == mod['path'] and a['name'] == name:
            adt = a
    if adt is None or not adt['variants'] or len(adt['variants'][0]['fields']) != 1:
        return None
    inner = F.tys(adt['variants'][0]['fields'][0]['ty'])
    fam = 'any'
    if inner in ('std::string::String', 'alloc::string::String'):
        fam = 'string'
    elif inner in sym.INT_TYPES:
        fam = 'int'
    elif inner in ('f32', 'f64'):
        fam = 'float'
    return {'name': name, 'family': fam, 'inner': inner, 'generics': '', 'sanitizers': [], 'validators': [], 'custom': None,
            'derives': [], 'default': None, 'const_fn': False, 'new_unchecked': False, 'vis': None, 'layout': None, 'tags': ['repo'],
            'extra_blocks': None, 'expect': 'accept', 'note': '', 'split': None, 'unknown': True, 'crate': F.crate, 'module': mod['path']}


TRAIT_TO_DERIVE = {'convert::TryFrom': 'TryFrom', 'str::FromStr': 'FromStr', 'str::traits::FromStr': 'FromStr', 'default::Default': 'Default',
                   'convert::AsRef': 'AsRef', 'borrow::Borrow': 'Borrow', 'ops::Deref': 'Deref', 'ops::deref::Deref': 'Deref', 'fmt::Display': 'Display',
                   'cmp::PartialEq': 'PartialEq', 'cmp::Eq': 'Eq', 'cmp::PartialOrd': 'PartialOrd', 'cmp::Ord': 'Ord', 'hash::Hash': 'Hash',
                   'clone::Clone': 'Clone', 'marker::Copy': 'Copy', 'iter::IntoIterator': 'IntoIterator',
                   'iter::traits::collect::IntoIterator': 'IntoIterator', 'Serialize': 'Serialize', 'ser::Serialize': 'Serialize',
                   'Deserialize': 'Deserialize', 'de::Deserialize': 'Deserialize', 'Arbitrary': 'Arbitrary'}


def infer_derives(g):
    ds = set()
    for i in g.impls:
        tr = i.get('trait')
        if not tr or g.self_kind(i) not in ('T',):
            # From<T> for Inner  (Into)
            if tr and tr.endswith('convert::From') and g.self_kind(i) is None and len(i.get('trait_args', [])) > 1 \
                    and g.F.ty(i['trait_args'][1]).get('lid') == g.adt['lid']:
                ds.add('Into')
            continue
        for tail_, nm in TRAIT_TO_DERIVE.items():
            if tr == tail_ or tr.endswith('::' + tail_):
                ds.add(nm)
        for nm in ('Serialize', 'Deserialize'):
            if is_serde_trait(tr, nm):
                ds.add(nm)
        if tr.endswith('convert::From'):
            ds.add('From')
    return sorted(ds)


def decl_key_unknown(d):
    return f"repo:{d['crate']}::{d['module']} ({d['family']}:{d['inner']})"


def check_repo_declaration(rep, g, prop):
    """Sigma-free structural rules on a real declaration of the repository"""
    d = g.d
    ex = g.ex
    tn, nw = g.inherent_fn('try_new'), g.inherent_fn('new')
    rep.ob('R-API', (tn is None) != (nw is None), g, 'exactly one of try_new / new exists', {})
    fn = tn or nw
    if fn is None:
        return
    hv = tn is not None
    if hv:
        d['custom'] = {'unknown': True}      # makes has_validation() true; Sigma-based validator rules are not used here
    d['derives'] = infer_derives(g)
    d['new_unchecked'] = g.inherent_fn('new_unchecked') is not None
    if prop in ('C05', 'C01'):
        rep.bodies.add(fn['lid'])
        outs = g.paths(fn)
        bad = [o for o in outs if o.kind != 'return']
        rep.ob('R-PANIC', not [o for o in bad if o.kind == 'diverge'], g, 'constructor has no generated panic path', {'why': [o.why for o in bad][:3]})
        rets = [o for o in outs if o.kind == 'return']
        oks = [o for o in rets if (is_ok(o.ret) if hv else True)]
        errs = [o for o in rets if hv and is_err(o.ret)]
        rep.ob('R-GUARD', bool(oks) and len(oks) + len(errs) == len(rets), g, 'every return of the constructor is Ok(T(..)) / Err(..) / T(..)', {})
        Fs = set()
        for o in oks:
            t = o.ret[4][0] if hv else o.ret
            if is_adt(t) and t[1] == g.adt['path'] and len(t[4]) == 1:
                Fs.add(t[4][0])
            else:
                Fs.add(('bad', t))
        rep.ob('R-GUARD', len(Fs) == 1 and not any(x[0] == 'bad' for x in Fs), g, 'all accepting paths wrap one and the same value term', {})
        if len(Fs) == 1:
            Fv = next(iter(Fs))
            # the stored value is a chain of unary transformers over the raw parameter
            t = strip_view(ex, Fv)
            for _ in range(64):
                if t[0] == 'param':
                    break
                if t[0] == 'call' and len(t[2]) == 1:
                    t = strip_view(ex, t[2][0])
                    continue
                break
            rep.ob('R-SAN', t == ('param', 1), g, 'the stored value is a chain of unary transformers over the raw parameter', {'stuck_at': show(t)[:160]})
            # every check on the accepting path reads the stored value only (never the raw parameter beside it)
            for o in oks:
                for c, v in o.conds:
                    c2 = subst(c, {Fv: ('STORED',)})
                    rep.ob('R-VAL', not has_param(c2) and contains(c2, ('STORED',)), g,
                           'each check on the accepting path tests the stored (sanitized) value and nothing else', {'cond': show(c)[:200]})
            leak = [e for o in errs for e in o.events if e[0] == 'construct' and e[1] == g.adt['path']]
            rep.ob('R-GUARD', not leak, g, 'no T is constructed on a rejecting path', {})
    if prop in ('C05', 'C03'):
        check_conversions(rep, g)
    if prop in ('C05', 'C06'):
        check_from_str(rep, g)
    if prop in ('C05', 'C04', 'C10'):
        check_deserialize(rep, g)
    if prop == 'C10':
        check_serialize(rep, g)
    if prop in ('C13',):
        check_views(rep, g)
        check_derived_cmp(rep, g)
        check_into_inner(rep, g)
    if prop == 'C05':
        # visibility: field and module private; the three re-exports share one visibility
        fld = g.adt['variants'][0]['fields']
        rep.ob('R-VIS', len(fld) == 1 and fld[0]['vis'] == 'in:' + g.modpath, g, 'the single field is private to the generated module', {})
        # nearest enclosing *module* (the declaration may sit inside a fn body)
        parent = ''
        for m in g.F.mods:
            if m['path'] and g.modpath.startswith(m['path'] + '::') and len(m['path']) > len(parent) and m['path'] != g.modpath:
                parent = m['path']
        rep.ob('R-VIS', g.mod['vis'] == ('crate' if not parent else 'in:' + parent), g, 'the generated module is private to the declaring module',
               {'vis': g.mod['vis'], 'enclosing_module': parent})
        vis = set()
        for u in g.F.uses:
            for t in u['targets']:
                if t['path'].startswith(g.modpath + '::') and not u['module'].startswith(g.modpath):
                    nm = t['path'][len(g.modpath) + 2:]
                    rep.ob('R-VIS', nm in (g.name, g.name + 'Error', g.name + 'ParseError'), g, f're-export `{nm}` is the type / error / parse error', {})
                    vis.add(u['vis'])
        rep.ob('R-VIS', len(vis) == 1, g, 'type, error and parse error are re-exported with one and the same visibility', {'vis': sorted(vis)})
        for i in g.impls:
            sk = g.self_kind(i)
            tr = i.get('trait')
            if sk and tr:
                rep.ob('R-MUT', not any(tr.endswith(x) for x in FORBIDDEN_TRAITS) and sk != '&mut T', g, f'impl {tr} for {sk} is not a mutable view', {})
        for f2 in g.fns:
            if f2['kind'] == 'Closure':
                continue
            out = g.F.tys(f2['output'])
            rep.ob('R-MUT', '&mut' not in out and '*mut' not in out, g, f'`{f2["name"]}` does not return a mutable reference', {})
            if f2['unsafe']:
                rep.ob('R-UNSAFE', f2['name'] == 'new_unchecked', g, f'unsafe fn `{f2["name"]}` is new_unchecked', {})
        nu = g.inherent_fn('new_unchecked')
        if nu is not None:
            rep.ob('R-UNSAFE', nu['unsafe'], g, 'new_unchecked is an unsafe fn', {})
