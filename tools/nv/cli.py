"""nv: command line of the verification machinery.

  python3 tools/nv.py check <Cxx> [--tier quick|thorough]
  python3 tools/nv.py replay <file>
"""
import argparse
import json
import multiprocessing
import os
import sys
import time
import traceback

from . import build, sym, model, rules, props, wit

VERIF = build.VERIF
from . import meta
LEVELS = {k: v['level'] for k, v in meta.META.items()}


def known_findings():
    p = os.path.join(VERIF, 'known_findings.json')
    if not os.path.exists(p):
        return {}
    data = json.load(open(p))
    out = {}
    for e in data.get('findings', []):
        out[e['key']] = e
    return out


def _work(job):
    """analyse one corpus crate for one property (runs in a worker process)"""
    prop, cname, fpath, decls = job
    tmode = prop.endswith('#T')
    prop = prop[:-2] if tmode else prop
    rep = rules.Report(prop)
    try:
        F = sym.Facts(fpath)
        ex = sym.Exec(F)
        fn = props.T_PROPS[prop] if tmode else props.E_PROPS[prop]
        gens = []
        for d in decls:
            g = model.Gen(F, ex, d)
            if g.adt is None:
                rep.ob('R-EXPAND', False, g, 'declaration has no generated module/struct in the facts', {})
                continue
            gens.append(g)
            try:
                fn(rep, g)
            except Exception as e:  # a rule crashing is a broken check, not a verdict
                rep.ob('R-INTERNAL', None, g, f'rule crashed: {e!r}', {'tb': traceback.format_exc()[-1500:]})
        cfn = None if tmode else props.CRATE_PROPS.get(prop)
        if cfn and gens:
            cfn(rep, F, gens)
    except Exception as e:
        return {'crate': cname, 'error': repr(e), 'tb': traceback.format_exc()}
    return {
        'crate': cname, 'obligations': rep.obligations, 'discharged': rep.discharged,
        'findings': [{'key': f.key, 'prop': f.prop, 'rule': f.rule, 'decl_key': f.decl_key, 'what': f.what, 'detail': f.detail,
                      'decl_name': f.decl['name'] if f.decl else None} for f in rep.findings],
        'undecided': rep.undecided, 'instances': dict(rep.instances), 'samples': rep.samples,
        'decls': len(rep.decls), 'bodies': len(rep.bodies),
    }


def _work_repo(job):
    """analyse the generated modules of one crate of the repository's own workspace (Sigma-free rules)"""
    prop, fpath = job
    rep = rules.Report(prop)
    try:
        F = sym.Facts(fpath)
        ex = sym.Exec(F)
        gens = []
        for m in F.mods:
            if not (m['name'].startswith('__nutype_') and m['name'].endswith('__')):
                continue
            d = rules.pseudo_decl(F, m)
            if d is None:
                continue
            g = model.Gen(F, ex, d)
            if g.adt is None:
                continue
            gens.append(g)
            try:
                rules.check_repo_declaration(rep, g, prop)
            except Exception as e:
                rep.ob('R-INTERNAL', None, g, f'rule crashed: {e!r}', {'tb': traceback.format_exc()[-1500:]})
        if gens and prop in props.CRATE_PROPS:
            props.CRATE_PROPS[prop](rep, F, gens)
    except Exception as e:
        return {'crate': os.path.basename(fpath), 'error': repr(e), 'tb': traceback.format_exc()}
    return {
        'crate': os.path.basename(fpath), 'obligations': rep.obligations, 'discharged': rep.discharged,
        'findings': [{'key': f.key, 'prop': f.prop, 'rule': f.rule, 'decl_key': f.decl_key, 'what': f.what, 'detail': f.detail,
                      'decl_name': f.decl['name'] if f.decl else None} for f in rep.findings],
        'undecided': rep.undecided, 'instances': {k + ' (repo)': v for k, v in rep.instances.items()}, 'samples': [],
        'decls': len(rep.decls), 'bodies': len(rep.bodies),
    }


def run_e_level(prop, tier):
    crates, paths, info = build.mir_facts(tier)
    if info['fails']:
        return None, {'error': 'corpus did not compile', 'fails': info['fails']}, info, crates
    jobs = []
    sel = props.SELECT.get(prop)
    for cn, c in crates.items():
        if cn not in paths:
            return None, {'error': f'no facts for corpus crate {cn}'}, info, crates
        decls = [d for d in c['decls'] if sel is None or sel(cn, c, d)]
        if decls:
            jobs.append((prop, cn, paths[cn], decls))
    if not jobs:
        return [], None, info, crates
    with multiprocessing.Pool(min(16, len(jobs))) as pool:
        results = pool.map(_work, jobs)
    return results, None, info, crates


def write_replay(prop, f):
    d = os.path.join(VERIF, 'replays', prop)
    os.makedirs(d, exist_ok=True)
    import hashlib
    h = hashlib.sha256(f['key'].encode()).hexdigest()[:16]
    p = os.path.join(d, h + '.json')
    with open(p, 'w') as fh:
        json.dump(f, fh, indent=1, default=str)
    return p


def check(prop, tier, only_key=None):
    t0 = time.time()
    seed = int(os.environ.get('VERIF_SEED', '0'))
    results, err, info, crates = ([], None, {'dropped': []}, {})
    if prop in props.E_PROPS:
        results, err, info, crates = run_e_level(prop, tier)
    if err:
        print(f'check {prop}: cannot decide: {json.dumps(err)[:3000]}')
        return 2
    errs = [r for r in results if 'error' in r]
    if errs:
        print(f'check {prop}: worker failed: {errs[0]["error"]}\n{errs[0]["tb"]}')
        return 2
    # ---- R-level: the repository's own declarations (tests, examples), structural rules only
    incomplete = []
    repo_decls = 0
    if prop in props.REPO_PROPS:
        files, rinfo = build.repo_facts()
        if rinfo.get('rc'):
            # fail closed - but only after the corpus has had its say: a change that also breaks the repository's own
            # (feature-gated) tests is reported through the corpus findings, not hidden behind "cannot decide"
            incomplete.append(f'the repository workspace does not compile with the driver: {rinfo.get("tail", "")[-1500:]}')
        else:
            with multiprocessing.Pool(min(16, max(1, len(files)))) as pool:
                rres = pool.map(_work_repo, [(prop, f) for f in files])
            repo_decls = sum(r.get('decls', 0) for r in rres)
            results = list(results) + rres
    # ---- T-level: the unit tests the macro generates (cfg(test) build of a dedicated corpus)
    if prop in props.T_PROPS:
        tcrates, tpaths, tinfo = build.test_facts(tier)
        if tinfo.get('rc') or not tpaths:
            incomplete.append(f'the generated-tests corpus does not compile in test mode: {tinfo.get("tail", "")[-1500:]}')
        else:
            jobs = [(prop + '#T', cn, tpaths[cn], c['decls']) for cn, c in tcrates.items()]
            results = list(results) + [_work(j) for j in jobs]
    # ---- W-level: compile-verdict witnesses
    wstats = {'witnesses': 0, 'pass_expected': 0, 'fail_expected': 0}
    wfind = []
    wsamples = []
    if prop in props.W_PROPS:
        ws = props.W_PROPS[prop](tier)
        try:
            verdicts = wit.run_witnesses(ws)
        except RuntimeError as e:
            print(f'check {prop}: cannot build witness libraries: {e}')
            return 2
        for w in ws:
            v = verdicts[w['id']]
            ok, why = wit.verdict_matches(v, w['expect'])
            if ok and w.get('line') and w['expect'] != 'pass':
                # the rejection must be caused by the offending line itself
                codes = w['expect'].get('fail')
                at = [e for e in v['errors'] if e['line'] == w['line'] and (not codes or e['code'] in codes)]
                if not at:
                    ok, why = False, f'rejected, but not at the offending line {w["line"]}: ' + '; '.join(f"{e['code']}@{e['line']}" for e in v['errors'][:4])
            wstats['witnesses'] += 1
            wstats['pass_expected' if w['expect'] == 'pass' else 'fail_expected'] += 1
            if len(wsamples) < 6:
                wsamples.append({'witness': w['id'], 'what': w['what'], 'expect': w['expect'], 'verdict': why})
            if not ok:
                wfind.append({'key': f'{prop}|W|{w["id"]}|{w["what"]}', 'prop': prop, 'rule': 'W', 'decl_key': w['id'], 'what': w['what'] + ': ' + why,
                              'detail': {'source': w['src'], 'expect': w['expect'], 'errors': v['errors'][:5]}, 'decl_name': None})
    # ---- G-level: lints over the generator source
    gfind = []
    gsamples = []
    ginst = {}
    if prop in props.G_PROPS:
        gr = props.G_PROPS[prop](tier)
        ginst = gr['instances']
        gsamples = gr.get('samples', [])
        for n_ in gr.get('notes', []):
            print(f'NOTE: {n_}')
        name, got, floor = gr.get('floor') or (None, 0, 0)
        if name and got < floor:
            print(f'check {prop}: generator lint `{name}` matched {got} sites, below the confirmed floor {floor}: anchors lost, no verdict')
            return 2
        for f in gr['findings']:
            gfind.append({'key': f'{prop}|{f["rule"]}|site|{f["site"]}', 'prop': prop, 'rule': f['rule'], 'decl_key': f['site'],
                          'what': f['what'], 'detail': f['detail'], 'decl_name': None})
    # ---- corpus declarations the current tree refuses although the reference model accepts them
    dfind = []
    dv = props.DROPPED_IS_VIOLATION.get(prop)
    for x in info.get('dropped', []):
        c = crates.get(x['crate'])
        if dv and c is not None and dv(x['crate'], c) and 'decl' in x and x['decl'].get('expect') != 'either':
            dk = rules.decl_key(x['decl'])
            dfind.append({'key': f'{prop}|R-ACCEPT|{dk}|rejected', 'prop': prop, 'rule': 'R-ACCEPT', 'decl_key': dk,
                          'what': 'a declaration of the documented grammar is rejected by the current tree: ' + '; '.join(x['errors'])[:300],
                          'detail': {'errors': x['errors']}, 'decl_name': x['name']})
    unexpected = [x for x in info.get('dropped', []) if x.get('decl', {}).get('expect') != 'either']
    if unexpected:
        print(f'NOTE: {len(unexpected)} corpus declaration(s) do not compile on this tree and were left out of the analysis')
    known = known_findings()
    findings = [f for r in results for f in r['findings']] + wfind + gfind + dfind
    undecided = [u for r in results for u in r['undecided']]
    obligations = sum(r['obligations'] for r in results) + wstats['witnesses'] + sum(ginst.values()) + len(dfind)
    discharged = sum(r['discharged'] for r in results) + wstats['witnesses'] - len(wfind) + sum(ginst.values()) - len(gfind)
    instances = {}
    for r in results:
        for k, v in r['instances'].items():
            instances[k] = instances.get(k, 0) + v
    samples = [s for r in results for s in r['samples']][:10]
    if wstats['witnesses']:
        instances['W'] = wstats['witnesses']
    instances.update(ginst)
    samples = samples + gsamples[:3]
    new, hit = [], []
    seen_keys = {}
    if only_key is not None:
        findings = [f for f in findings if f['key'] == only_key]
    for f in findings:
        if f['key'] in seen_keys:
            seen_keys[f['key']]['instances'] = seen_keys[f['key']].get('instances', 1) + 1
            continue
        seen_keys[f['key']] = f
        if f['key'] in known:
            hit.append(f)
        else:
            new.append(f)
    for f in hit:
        print(f'KNOWN-FINDING: property={prop} {known[f["key"]].get("summary", f["what"])} [{f["key"]}] ({f.get("instances", 1)} instance(s) in this run)')
    rc = 0
    shown = 0
    for f in new:
        rc = 1
        if shown >= 40:
            continue
        shown += 1
        p = write_replay(prop, f)
        print(f'VIOLATION property={prop} replay={p}')
        print(f'  rule={f["rule"]} decl={f["decl_key"]} ({f.get("instances", 1)} instance(s))\n  {f["what"]}\n  {json.dumps(f["detail"], default=str)[:600]}')
    if len(new) > shown:
        print(f'... and {len(new) - shown} more violations of {prop} (not listed)')
    ev = {
        'property_id': prop, 'tier': tier, 'seed': seed, 'level': LEVELS.get(prop, 'other'),
        'coverage': {
            'explanation': 'static analysis of the macro-expanded corpus: MIR path enumeration vs reference model',
            'obligations': obligations, 'discharged': discharged, 'undecided': len(undecided),
            'declarations': sum(r['decls'] for r in results), 'bodies_analysed': sum(r['bodies'] for r in results),
            'rule_instances': instances, 'samples': samples + wsamples, 'witnesses': wstats,
            'repo_own_declarations': repo_decls, 'known_findings_hit': len(hit),
            'programs': sum(r['decls'] for r in results), 'disagreements_checked': obligations,
            'evaluations': obligations, 'distinct_nontrivial': sum(r['decls'] for r in results),
            'undecided_samples': undecided[:10],
        },
        'assumptions': [x.strip() for x in meta.META.get(prop, {}).get('note', '').split(';') if x.strip()],
        'wall_s': round(time.time() - t0, 2),
        'violations': len(new),
    }
    if not os.environ.get('VERIF_NO_EVIDENCE'):
        os.makedirs(os.path.join(VERIF, 'evidence'), exist_ok=True)
        with open(os.path.join(VERIF, 'evidence', prop + '.json'), 'w') as fh:
            json.dump(ev, fh, indent=1, default=str)
    print(f'check {prop} [{tier}]: {obligations} obligations, {discharged} discharged, {len(undecided)} undecided, '
          f'{len(hit)} known findings, {len(new)} violations, {ev["wall_s"]}s')
    floor = getattr(meta, 'OB_FLOOR', {}).get(prop, 0)
    if rc == 0 and only_key is None and obligations < floor:
        print(f'check {prop}: only {obligations} obligations were generated, below the counted floor {floor}: the rules lost their anchors '
              f'(generated impls not found where expected), no verdict')
        return 2
    if incomplete:
        for m in incomplete:
            print(f'check {prop}: part of the analysis could not be built: {m}')
        if rc == 0:
            print(f'check {prop}: cannot decide (no violation found in the part that was analysed, but the analysis is incomplete)')
            return 2
    return rc


def replay(path):
    """re-decides the finding recorded in a replay file on the current tree: exit 1 if it is still reported"""
    f = json.load(open(path))
    prop = f['prop']
    print(f'replay {path}\n  property={prop} rule={f["rule"]}\n  declaration/site: {f["decl_key"]}\n  finding: {f["what"]}')
    os.environ['VERIF_NO_EVIDENCE'] = '1'
    import io
    import contextlib
    buf = io.StringIO()
    with contextlib.redirect_stdout(buf):
        rc = check(prop, os.environ.get('VERIF_TIER', 'quick'), only_key=f['key'])
    out = buf.getvalue()
    if rc == 1:
        print('  -> still reported on the current tree:')
        print('\n'.join('     ' + l for l in out.split('\n') if l.strip())[:3000])
        print(f'VIOLATION property={prop} replay={path}')
        return 1
    if rc == 0:
        print('  -> not reported on the current tree (holds, or is a listed known finding)')
        return 0
    print(out)
    return rc


def main(argv=None):
    ap = argparse.ArgumentParser()
    sub = ap.add_subparsers(dest='cmd')
    c = sub.add_parser('check')
    c.add_argument('prop')
    c.add_argument('--tier', default=os.environ.get('VERIF_TIER', 'quick'))
    r = sub.add_parser('replay')
    r.add_argument('path')
    a = ap.parse_args(argv)
    if a.cmd == 'check':
        return check(a.prop, a.tier)
    if a.cmd == 'replay':
        return replay(a.path)
    ap.print_help()
    return 2
