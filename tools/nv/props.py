"""Property drivers: which rules decide which property, over which declarations."""
from . import rules, rules_arb
from .rules import Report


def run_C01(rep, g):
    F = rules.check_ctor(rep, g)
    rules.check_into_inner(rep, g)
    rules.check_hygiene(rep, g)
    return F


def run_C03(rep, g):
    rules.check_conversions(rep, g)
    if g.d.get('default') is not None:
        rules.check_hygiene(rep, g)   # the default expression is spliced into a generated body


def run_C04(rep, g):
    rules.check_deserialize(rep, g)


def run_C06(rep, g):
    rules.check_from_str(rep, g)


def run_C10(rep, g):
    rules.check_serialize(rep, g)
    rules.check_deserialize(rep, g)
    if 'Serialize' in g.d['derives'] and 'Deserialize' in g.d['derives']:
        # deserialize(serialize(v)) == v needs v to be a fixed point of the constructor: the generated sanitizer pipeline is
        # the declared (idempotent) one, step for step, and the guards are the declared ones
        rules.check_ctor(rep, g)


def run_C07(rep, g):
    # order + first-violated: R-ORDER/R-VAL inside check_ctor; variants: R-VARIANT
    rules.check_ctor(rep, g)
    rules.check_error_enum(rep, g)
    rules.check_custom_error_passthrough(rep, g)


def run_C13(rep, g):
    rules.check_views(rep, g)
    rules.check_derived_cmp(rep, g)
    rules.check_into_inner(rep, g)


def run_C12(rep, g):
    if g.d['family'] != 'float':
        return
    rules.check_float_total_order(rep, g)
    if {'Eq', 'Ord'} & set(g.d['derives']):
        rules.check_derived_cmp(rep, g)
        rules.check_ctor(rep, g)
        rules.check_conversions(rep, g)
        rules.check_from_str(rep, g)
        rules.check_deserialize(rep, g)


def run_C14(rep, g):
    if g.d['family'] == 'int' and 'Arbitrary' in g.d['derives']:
        if not g.d.get('custom'):
            rep.ob('R-IMPL', rules_arb.arb_impl(g) is not None, g, 'an accepted derive(Arbitrary) yields an Arbitrary impl for the type', {})
        rules_arb.check_arbitrary_int(rep, g, equality=True)


def run_C09(rep, g):
    if 'Arbitrary' not in g.d['derives']:
        return
    fam = g.d['family']
    # the declaration was accepted with derive(Arbitrary): the impl exists (wherever the expansion puts it)
    imp0 = rules_arb.arb_impl(g)
    if not (g.d.get('custom') and fam != 'any'):
        rep.ob('R-IMPL', imp0 is not None, g, 'an accepted derive(Arbitrary) yields an Arbitrary impl for the type', {})
    if g.d.get('custom') and fam != 'any':
        # the validity of a value is decided by a function of the user's crate: no generator can promise valid values
        imp = rules_arb.arb_impl(g)
        rep.ob('R-ARB-ANY', imp is None, g, 'Arbitrary is not derived next to custom validation (the generator cannot know the valid set)', {})
        return
    if fam == 'int':
        rules_arb.check_arbitrary_int(rep, g, equality=False)
    elif fam == 'string':
        rules_arb.check_arbitrary_string(rep, g)
    elif fam == 'float':
        rules_arb.check_arbitrary_float(rep, g)
    else:
        imp = rules_arb.arb_impl(g)
        rep.ob('R-ARB-ANY', imp is not None and not g.has_validation(), g, 'Arbitrary on other types exists only without validation', {})
        if imp is not None:
            fn = g.impl_fn(imp, 'arbitrary')
            outs = g.paths(fn)
            rep.ob('R-ARB-ANY', all(o.kind == 'return' for o in outs), g, 'other types: arbitrary = inner arbitrary + new, no panic path', {})


def run_C02(rep, g):
    # every written sanitizer / validator / bound is present in the guard program with the value its spelling denotes
    rules.check_ctor(rep, g)
    rules.check_error_enum(rep, g)
    # derive(..) blocks: every written trait is derived (union of repeated blocks, if accepted at all)
    if g.d.get('split') and g.d['split'].get('derive'):
        rules.check_derived_cmp(rep, g)
    # "no rule is silently dropped" holds on every route into the type, not only in `new`/`try_new`: each conversion,
    # `from_str` and `deserialize` must have the constructor's outcome table (round 13: `From<String>` written as
    # `Self(raw_value)` dropped every sanitizer on that one route)
    rules.check_conversions(rep, g)
    rules.check_from_str(rep, g)
    rules.check_deserialize(rep, g)


def g_C02(tier):
    from . import gsrc
    files = gsrc.generator_files()
    anchors, inst, v1 = gsrc.g_lww(files)
    fns, sites, v2 = gsrc.g_spec(files)
    findings = [{'rule': 'G-LWW', 'site': f"{v['file']}::{v['fn']}::attrs.{v['field']}", 'what': v['what'], 'detail': v} for v in v1]
    findings += [{'rule': 'G-SPEC', 'site': f"{v['file']}::{v['fn']}::{v['expr']}", 'what': v['what'], 'detail': v} for v in v2]
    notes = []
    if anchors != 1 or inst < 4:
        # the lint knows one shape of the attribute loop (`while !input.is_empty() { .. attrs.F = .. }`). When the parser is
        # restructured it has nothing to say; what it guards - a repeated block silently replacing the first - is decided
        # anyway by the repeated-block declarations of the corpus and the compile witnesses, so this is a note, not a verdict.
        notes.append(f'G-LWW found no attribute loop of the known shape (anchors={anchors}, assignments={inst}): the lint is not '
                     f'applied; repeated blocks are decided by the corpus declarations and witnesses only')
    return {'instances': {'G-LWW attribute-loop data assignments': inst, 'G-SPEC ParseStream fns scanned': fns, 'G-SPEC speculative parse sites': sites},
            'findings': findings, 'notes': notes,
            'samples': [{'rule': 'G-SPEC', 'fns': fns, 'speculative_sites': sites}]}


def run_C08(rep, g):
    # every corpus declaration is one the reference model accepts: it must expand (declarations the tree
    # refuses are reported through the dropped-declaration channel)
    rep.ob('R-ACCEPT', g.adt is not None and g.ctor() is not None, g, 'declaration of the documented grammar is accepted and expanded', {})


def test_C08(rep, g):
    rules.check_generated_tests(rep, g)


T_PROPS = {'C08': test_C08}

# properties whose structural (Sigma-free) rules are also applied to the repository's own declarations
REPO_PROPS = {'C05', 'C03', 'C04', 'C06', 'C10', 'C13'}


def run_C11(rep, g):
    # "any chain of into_inner/Display -> try_new/TryFrom/FromStr/Deserialize steps stays on the same value": each exit
    # step hands out the stored value, each re-entry step is the constructor applied to what the inner type's own
    # FromStr/Deserialize reads back (the structural half of the clause; that half is what nutype generates)
    rules.check_into_inner(rep, g)
    rules.check_conversions(rep, g)
    rules.check_from_str(rep, g)
    rules.check_serialize(rep, g)
    rules.check_deserialize(rep, g)
    # the obtainable values are the ones the *declared* guards admit (a float declared `finite` never holds NaN, which is
    # not equal to itself; "custom sanitizers declared idempotent" vouches for the pipeline as declared, same steps, same
    # order): the guard program of the constructor is the declared one
    rules.check_ctor(rep, g)
    if g.d.get('custom') is None and any(x['kind'] == 'with' for x in g.d['sanitizers']):
        return
    rules.check_canonical(rep, g)


def run_C15(rep, g):
    rules.check_nostd_paths(rep, g)


def g_C15(tier):
    from . import gsrc
    files = gsrc.generator_files()
    inst, sites, viol = gsrc.g_std(files)
    findings = [{'rule': 'G-STD', 'site': f"{v['file']}::{v['fn']}", 'what': v['what'], 'detail': v} for v in viol]
    return {'instances': {'G-STD quote! bodies scanned': inst, 'G-STD std path sites (allow-listed with reason)': len(sites) - len(viol)},
            'findings': findings, 'floor': ('G-STD quote! bodies scanned', inst, 200),
            'samples': [{'rule': 'G-STD', 'site': s} for s in sites[:4]]}


def g_C10(tier):
    """not a rule on nutype: records whether the premise of the byte-identity clause is visible in the locked dependency sources"""
    from . import gsrc
    facts = gsrc.dependency_transparency()
    ok = sum(1 for f in facts if f['verified'])
    for f in facts:
        if f['verified'] is False:
            print(f"NOTE: dependency premise not confirmed in the vendored source: {f['crate']} {f['version']}: {f['fact']}")
    return {'instances': {'dependency premises confirmed in vendored sources (serde_json, rmp-serde)': ok}, 'findings': [],
            'samples': [{'dependency_fact': f} for f in facts]}


def g_profile(tier):
    from . import gsrc
    files = gsrc.generator_files()
    inst, viol = gsrc.g_profile(files)
    findings = [{'rule': 'G-PROFILE', 'site': f"{v['file']}::{v['fn']}::{v['token']}", 'what': v['what'], 'detail': v} for v in viol]
    return {'instances': {'G-PROFILE quote! bodies scanned': inst}, 'findings': findings, 'floor': ('G-PROFILE quote! bodies scanned', inst, 200), 'samples': []}


# the E-level rules see the dev-profile expansion only: the properties about what constructors / conversions / orderings do
# additionally require that the generated code has no profile-dependent branch at all
G_PROPS = {'C15': g_C15, 'C02': g_C02, 'C10': g_C10, 'C01': g_profile, 'C03': g_profile, 'C04': g_profile, 'C05': g_profile,
           'C06': g_profile, 'C09': g_profile, 'C12': g_profile}

# which corpus crates / declarations a property looks at (default: every declaration of std crates + nostd)
SELECT = {
    'C15': lambda cn, c, d: not c['std'],
}
# properties for which a corpus declaration the current tree refuses to compile is itself a violation
DROPPED_IS_VIOLATION = {'C15': lambda cn, c: not c['std'], 'C08': lambda cn, c: True, 'C02': lambda cn, c: True}


def run_C16(rep, g):
    rules.check_messages(rep, g)
    # "the same text is what serde and FromStr errors embed": the error a conversion reports for an input is the
    # constructor's error for that input (same variant), never one the conversion makes up on its own
    if g.has_validation() and not g.d.get('custom'):
        rules.check_conversions(rep, g, fallible_only=True)
        rules.check_from_str(rep, g)
        rules.check_deserialize(rep, g)


def run_C05(rep, g):
    rules.check_no_bypass(rep, g)
    # every safe entry point that builds T runs the guards: the constructor itself (R-GUARD) ...
    rules.check_ctor(rep, g)
    # ... and every conversion has the constructor's outcome table
    rules.check_conversions(rep, g)
    rules.check_from_str(rep, g)
    rules.check_deserialize(rep, g)
    rules.check_derived_cmp(rep, g)


def crate_C05(rep, F, gens):
    return rules.check_ctor_sites(rep, F, gens)


def _crate(methods=None, only=None):
    return lambda rep, F, gens: rules.check_ctor_sites(rep, F, gens, methods=methods, only=only)


# the who-may-construct scan is part of several properties, each restricted to the entry points it talks about
CRATE_PROPS = {
    'C05': crate_C05,
    'C03': _crate(methods={'try_from', 'from', 'from_str', 'default'}),
    'C04': _crate(methods={'deserialize', 'visit_newtype_struct', 'expecting'}),
    'C06': _crate(methods={'from_str'}, only=lambda g: g.d['family'] != 'string'),
    'C09': _crate(methods={'arbitrary', 'size_hint'}),
    'C12': _crate(only=lambda g: g.d['family'] == 'float' and bool({'Eq', 'Ord'} & set(g.d['derives']))),
    # "every obtainable value is canonical" presupposes that values are obtainable through the constructor only
    'C11': _crate(only=lambda g: not g.d.get('custom') and not any(x['kind'] == 'with' for x in g.d['sanitizers'])),
}

from . import witcat


def grid_witnesses(tier='quick'):
    from . import grid
    return grid.build(tier)

W_PROPS = {'C05': witcat.c05_witnesses, 'C07': witcat.c07_witnesses, 'C12': witcat.c12_witnesses, 'C15': witcat.c15_witnesses, 'C02': witcat.c02_witnesses, 'C08': grid_witnesses,
           'C10': witcat.c10_witnesses, 'C04': witcat.c10_witnesses}

E_PROPS = {
    'C01': run_C01,
    'C03': run_C03,
    'C04': run_C04,
    'C06': run_C06,
    'C10': run_C10,
    'C11': run_C11,
    'C08': run_C08,
    'C02': run_C02,
    'C15': run_C15,
    'C09': run_C09,
    'C14': run_C14,
    'C16': run_C16,
    'C05': run_C05,
    'C07': run_C07,
    'C12': run_C12,
    'C13': run_C13,
}
