"""Property drivers: which rules decide which property, over which declarations."""
from . import rules
from .rules import Report


def run_C01(rep, g):
    F = rules.check_ctor(rep, g)
    rules.check_into_inner(rep, g)
    return F


def run_C03(rep, g):
    rules.check_conversions(rep, g)


def run_C04(rep, g):
    rules.check_deserialize(rep, g)


def run_C06(rep, g):
    rules.check_from_str(rep, g)


def run_C10(rep, g):
    rules.check_serialize(rep, g)
    rules.check_deserialize(rep, g)


def run_C07(rep, g):
    # order + first-violated: R-ORDER/R-VAL inside check_ctor; variants: R-VARIANT
    rules.check_ctor(rep, g)
    rules.check_error_enum(rep, g)
    rules.check_custom_error_passthrough(rep, g)


def run_C13(rep, g):
    rules.check_views(rep, g)
    rules.check_derived_cmp(rep, g)
    rules.check_into_inner(rep, g)


def run_C12(rep, g):
    if g.d['family'] != 'float':
        return
    rules.check_float_total_order(rep, g)
    if {'Eq', 'Ord'} & set(g.d['derives']):
        rules.check_derived_cmp(rep, g)
        rules.check_ctor(rep, g)
        rules.check_conversions(rep, g)
        rules.check_from_str(rep, g)
        rules.check_deserialize(rep, g)


def run_C05(rep, g):
    rules.check_no_bypass(rep, g)
    # every safe entry point that builds T runs the guards: the constructor itself (R-GUARD) ...
    rules.check_ctor(rep, g)
    # ... and every conversion has the constructor's outcome table
    rules.check_conversions(rep, g)
    rules.check_from_str(rep, g)
    rules.check_deserialize(rep, g)
    rules.check_derived_cmp(rep, g)


def crate_C05(rep, F, gens):
    return rules.check_ctor_sites(rep, F, gens)


CRATE_PROPS = {'C05': crate_C05, 'C04': crate_C05, 'C12': crate_C05}

from . import witcat
W_PROPS = {'C05': witcat.c05_witnesses, 'C07': witcat.c07_witnesses, 'C12': witcat.c12_witnesses}

E_PROPS = {
    'C01': run_C01,
    'C03': run_C03,
    'C04': run_C04,
    'C06': run_C06,
    'C10': run_C10,
    'C05': run_C05,
    'C07': run_C07,
    'C12': run_C12,
    'C13': run_C13,
}
