"""Property drivers: which rules decide which property, over which declarations."""
from . import rules
from .rules import Report


def run_C01(rep, g):
    F = rules.check_ctor(rep, g)
    rules.check_into_inner(rep, g)
    return F


E_PROPS = {
    'C01': run_C01,
}
