#!/usr/bin/env python3
"""seedcheck.py <Cxx> <slug> '<demo command run in seed_out/demo>' [--props C01,C02,..]
Confirms a seeded change produced by an independent sub-agent in /tmp/seed_<Cxx> and files it under
/verif/seeded/<Cxx>-<slug>/ :
  1. patch applies to a fresh worktree of /repo HEAD, the workspace builds and the pinned suite passes there;
  2. the demonstration fails with the patch and passes without it (run in the agent's own worktree);
  3. every registered quick check is run against the patched worktree (VERIF_REPO); which ones fire is recorded."""
import json, os, shutil, subprocess, sys, tempfile, time
args = sys.argv[1:]
props = [f'C{i:02d}' for i in range(1, 17)]
if '--props' in args:
    i = args.index('--props'); props = args[i + 1].split(','); del args[i:i + 2]
srcdir = None
if '--src' in args:
    i = args.index('--src'); srcdir = args[i + 1]; del args[i:i + 2]
pid, slug, democmd = args[0], args[1], args[2]
src = srcdir or f'/tmp/seed_{pid}'
out = f'/verif/seeded/{pid}-{slug}'
env = dict(os.environ, CARGO_NET_OFFLINE='true', CARGO_TARGET_DIR=f'{src}/target')
def sh(cmd, cwd, env=env, timeout=3600):
    p = subprocess.run(cmd, shell=True, cwd=cwd, env=env, stdout=subprocess.PIPE, stderr=subprocess.STDOUT, text=True, timeout=timeout)
    return p.returncode, p.stdout
meta = {'property': pid, 'slug': slug, 'demo_cmd': democmd, 'ran': []}
# --- demo in the agent's worktree: patched -> must fail; stashed -> must pass
rc, o = sh('git diff --stat -- nutype nutype_macros | tail -1', src); meta['diffstat'] = o.strip()
rc1, o1 = sh(democmd, f'{src}/seed_out/demo'); meta['demo_with_patch'] = {'rc': rc1, 'tail': o1[-600:]}
sh(f'git diff -- nutype nutype_macros > {src}/_seed_patch.diff && git checkout -- nutype nutype_macros', src)
rc2, o2 = sh(democmd, f'{src}/seed_out/demo'); meta['demo_without_patch'] = {'rc': rc2, 'tail': o2[-600:]}
sh(f'git apply {src}/_seed_patch.diff', src)
meta['ran'].append(f'(in {src}/seed_out/demo) {democmd}  -> with patch rc={rc1}, without patch rc={rc2}')
# --- fresh worktree of /repo HEAD + patch: pinned suite
tmp = tempfile.mkdtemp(prefix='seedcheck.', dir='/var/tmp'); wt = tmp + '/wt'
try:
    subprocess.check_call(['git', '-C', '/repo', 'worktree', 'add', '--detach', '-q', wt, 'HEAD'])
    rc, o = sh(f'git apply {src}/seed_out/patch.diff', wt); meta['patch_applies_to_head'] = rc == 0
    if rc != 0:
        rc, o = sh(f'git apply {src}/_seed_patch.diff', wt); meta['patch_applies_to_head'] = rc == 0; meta['used_regenerated_patch'] = True
    e2 = dict(env, CARGO_TARGET_DIR=tmp + '/target')
    rc, o = sh('cargo test --workspace --no-fail-fast --offline 2>&1 | grep -E "^test result|FAILED|failed|^error" ', wt, e2)
    passed = sum(int(l.split()[3]) for l in o.split('\n') if l.startswith('test result'))
    failed = sum(int(l.split()[5]) for l in o.split('\n') if l.startswith('test result'))
    meta['pinned_suite'] = {'passed': passed, 'failed': failed, 'errors': [l for l in o.split('\n') if l.startswith('error')][:3]}
    meta['ran'].append(f'cargo test --workspace --no-fail-fast --offline (fresh worktree of /repo HEAD + patch): {passed} passed, {failed} failed')
    shutil.rmtree(tmp + '/target', ignore_errors=True)
    fired = {}
    e3 = dict(os.environ, VERIF_REPO=wt, VERIF_NO_EVIDENCE='1', VERIF_CACHE=tmp + '/cache')
    for p in props:
        t0 = time.time()
        TR = os.environ.get('VERIF_TOOLS_ROOT', '/verif')   # a frozen snapshot of the tools while /verif is being edited
        q = subprocess.run(['python3', TR + '/tools/nv.py', 'check', p], capture_output=True, text=True, env=e3, cwd=TR)
        v = [l for l in q.stdout.split('\n') if l.startswith('VIOLATION')]
        first = ''
        if v:
            ls = q.stdout.split('\n'); i = ls.index(v[0]); first = '\n'.join(ls[i:i + 4])[:700]
        fired[p] = {'rc': q.returncode, 'violation_lines': len(v), 's': round(time.time() - t0, 1), 'first': first,
                    'summary': q.stdout.strip().split('\n')[-1][:200]}
        print(p, q.returncode, len(v), flush=True)
    meta['checks'] = fired
    meta['caught_by'] = [p for p, f in fired.items() if f['rc'] == 1 and f['violation_lines']]
    meta['ran'].append('VERIF_REPO=<patched worktree> python3 tools/nv.py check <each property>')
finally:
    subprocess.call(['git', '-C', '/repo', 'worktree', 'remove', '--force', wt]); shutil.rmtree(tmp, ignore_errors=True)
os.makedirs(out, exist_ok=True)
shutil.copy(f'{src}/seed_out/patch.diff', out + '/patch.diff')
if os.path.isdir(out + '/demo'): shutil.rmtree(out + '/demo')
shutil.copytree(f'{src}/seed_out/demo', out + '/demo', ignore=shutil.ignore_patterns('target'))
if os.path.exists(f'{src}/seed_out/NOTES.md'): shutil.copy(f'{src}/seed_out/NOTES.md', out + '/NOTES.md')
ok = meta['demo_with_patch']['rc'] != 0 and meta['demo_without_patch']['rc'] == 0 and meta['pinned_suite']['failed'] == 0 and meta['pinned_suite']['passed'] > 200 and not meta['pinned_suite']['errors']
meta['confirmed'] = ok
json.dump(meta, open(out + '/meta.json', 'w'), indent=1)
print('confirmed' if ok else 'NOT CONFIRMED', 'caught_by', meta.get('caught_by'))
