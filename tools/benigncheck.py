#!/usr/bin/env python3
"""benigncheck.py <Bxx> <slug> --src <agent worktree> : files a behaviour-preserving refactoring produced by an
independent sub-agent under /verif/benign_refactors/<Bxx>-<slug>/ : the patch applies to a fresh worktree of /repo HEAD,
the pinned suite passes there, and every registered quick check is run against it (VERIF_REPO) - every one of them has
to stay silent (exit 0); a check that fires is either a false alarm (fix the rule) or a real behaviour change the
refactoring introduced (triage by hand)."""
import json, os, shutil, subprocess, sys, tempfile, time
args = sys.argv[1:]
i = args.index('--src'); src = args[i + 1]; del args[i:i + 2]
bid, slug = args[0], args[1]
out = f'/verif/benign_refactors/{bid}-{slug}'
TR = os.environ.get('VERIF_TOOLS_ROOT', '/verif')
meta = {'id': bid, 'slug': slug}
tmp = tempfile.mkdtemp(prefix='benigncheck.', dir='/var/tmp'); wt = tmp + '/wt'
def sh(cmd, cwd, env=None, timeout=7200):
    p = subprocess.run(cmd, shell=True, cwd=cwd, env=env, stdout=subprocess.PIPE, stderr=subprocess.STDOUT, text=True, timeout=timeout)
    return p.returncode, p.stdout
try:
    subprocess.check_call(['git', '-C', '/repo', 'worktree', 'add', '--detach', '-q', wt, 'HEAD'])
    rc, o = sh(f'git apply {src}/out/patch.diff', wt); meta['patch_applies_to_head'] = rc == 0
    env = dict(os.environ, CARGO_NET_OFFLINE='true', CARGO_TARGET_DIR=tmp + '/target')
    rc, o = sh('cargo test --workspace --no-fail-fast --offline 2>&1 | grep -E "^test result|FAILED|failed|^error" ', wt, env)
    passed = sum(int(l.split()[3]) for l in o.split('\n') if l.startswith('test result'))
    failed = sum(int(l.split()[5]) for l in o.split('\n') if l.startswith('test result'))
    meta['pinned_suite'] = {'passed': passed, 'failed': failed, 'errors': [l for l in o.split('\n') if l.startswith('error')][:3]}
    shutil.rmtree(tmp + '/target', ignore_errors=True)
    rc, o = sh('git diff --stat | tail -1', wt); meta['diffstat'] = o.strip()
    e3 = dict(os.environ, VERIF_REPO=wt, VERIF_NO_EVIDENCE='1', VERIF_CACHE=tmp + '/cache')
    fired = {}
    for p in [f'C{i:02d}' for i in range(1, 17)]:
        t0 = time.time()
        q = subprocess.run(['python3', TR + '/tools/nv.py', 'check', p], capture_output=True, text=True, env=e3, cwd=TR)
        v = [l for l in q.stdout.split('\n') if l.startswith('VIOLATION')]
        first = ''
        if v:
            ls = q.stdout.split('\n'); k = ls.index(v[0]); first = '\n'.join(ls[k:k + 4])[:900]
        elif q.returncode not in (0, 1):
            first = q.stdout[-900:]
        fired[p] = {'rc': q.returncode, 'violation_lines': len(v), 's': round(time.time() - t0, 1), 'first': first,
                    'summary': q.stdout.strip().split('\n')[-1][:200]}
        print(p, q.returncode, len(v), flush=True)
    meta['checks'] = fired
    meta['silent'] = all(f['rc'] == 0 for f in fired.values())
    meta['fired'] = [p for p, f in fired.items() if f['rc'] != 0]
finally:
    subprocess.call(['git', '-C', '/repo', 'worktree', 'remove', '--force', wt]); shutil.rmtree(tmp, ignore_errors=True)
os.makedirs(out, exist_ok=True)
shutil.copy(f'{src}/out/patch.diff', out + '/patch.diff')
if os.path.exists(f'{src}/out/NOTES.md'): shutil.copy(f'{src}/out/NOTES.md', out + '/NOTES.md')
json.dump(meta, open(out + '/meta.json', 'w'), indent=1)
print('SILENT' if meta.get('silent') else 'FIRED ' + ','.join(meta.get('fired', [])), 'suite', meta.get('pinned_suite'))
